#!/usr/bin/env bash
# d3_demo.sh - C13 defect 3 end-to-end (supporting evidence for d3_test.diff):
# ephemeral HTTP instances register and never heart-beat. The node responsible for some of them is
# restarted right after. Every snapshot the restarted node pulls from its peers (1s, 15s, 45s after
# its start) restarts the time-out clock of the instances it manages, so they stay listed (and
# "healthy") on all nodes for ~80s instead of the 33s instance time-out.
#
# usage: hunt/d3_demo.sh      (run from the worktree root, binary = target/debug/rnacos, default time-outs)
# 3-node cluster on ports 4384i (http) / 4394i (grpc+raft) / 4385i (console).
set -u
ROOT=$(cd "$(dirname "$0")/.." && pwd)
BIN=${BIN:-$ROOT/target/debug/rnacos}
WORK=$(mktemp -d /tmp/hc13_d3.XXXXXX)
NSVC=12
RESTART_NODE=2
LIMIT=50   # seconds; instance time-out is 30s + 3s grace, the restarted node needs ~3s to be back

start_node() {
  local i=$1
  local join=""
  [ "$i" != 1 ] && join="RNACOS_RAFT_JOIN_ADDR=127.0.0.1:43941"
  env RUST_LOG=warn RNACOS_HTTP_PORT=4384$i RNACOS_GRPC_PORT=4394$i RNACOS_HTTP_CONSOLE_PORT=4385$i \
      RNACOS_RAFT_NODE_ID=$i RNACOS_RAFT_NODE_ADDR=127.0.0.1:4394$i $join \
      RNACOS_DATA_DIR=$WORK/d$i "$BIN" >>"$WORK/n$i.log" 2>&1 &
  eval "PID$i=$!"
}
cleanup() { kill $PID1 $PID2 $PID3 2>/dev/null; wait 2>/dev/null; rm -rf "$WORK"; }
trap cleanup EXIT

members() { curl -s "127.0.0.1:4384$1/nacos/v1/raft/metrics" | jq -c '[.current_leader, (.membership_config.members|length)]' 2>/dev/null; }
state() { # node svc -> "X" listed, "-" not listed, "?" no answer
  curl -s -m 2 "127.0.0.1:4384$1/nacos/v1/ns/instance/list?serviceName=$2&healthyOnly=false" \
    | jq -r 'if (.hosts|length)==0 then "-" else "X" end' 2>/dev/null || echo "?"
}
row() { local n=$1 r="" c; for s in $(seq 1 $NSVC); do c=$(state $n d3svc$s); r="$r${c:-?}"; done; echo "$r"; }

echo "== start 3 nodes with the default time-outs (unhealthy after 18s, removed after 33s without heartbeat)"
start_node 1; sleep 3; start_node 2; sleep 1; start_node 3
for t in $(seq 1 40); do
  m1=$(members 1); m2=$(members 2); m3=$(members 3)
  [ "$m1" = "$m2" ] && [ "$m2" = "$m3" ] && [[ "$m1" == *",3]" ]] && break
  sleep 1
done
echo "raft metrics [leader,members] per node: $m1 $m2 $m3"
echo "== wait 50s: the start-up snapshot pulls of the three nodes are over"; sleep 50

echo "== register one ephemeral HTTP instance in each of $NSVC services through node 1; NO heartbeat is ever sent"
T0=$(date +%s.%N)
for s in $(seq 1 $NSVC); do
  curl -s -X POST "127.0.0.1:43841/nacos/v1/ns/instance?serviceName=d3svc$s&ip=10.0.0.$s&port=8080&ephemeral=true" >/dev/null
done
sleep 1
echo "== restart node $RESTART_NODE (kill -9, started again at once; it never gets declared dead by the others)"
eval "kill -9 \$PID$RESTART_NODE" 2>/dev/null; sleep 0.3
start_node $RESTART_NODE
echo "-- one letter per service: X listed (healthyOnly=false), - not listed"
late=0
for i in $(seq 1 70); do
  r1=$(row 1); r2=$(row 2); r3=$(row 3)
  el=$(printf '%.0f' "$(echo "$(date +%s.%N) - $T0" | bc)")
  mark=""
  if [ "$el" -gt $LIMIT ] && [[ "$r1$r2$r3" == *X* ]]; then mark="   <-- silent for ${el}s, still listed"; late=$el; fi
  echo "t=+${el}s node1 $r1   node2 $r2   node3 $r3$mark"
  [[ "$r1$r2$r3" != *X* ]] && [ "$el" -gt 20 ] && break
  sleep 1
done
if [ "$late" -gt 0 ]; then
  echo "RESULT: DEFECT - instances that never heart-beat were still listed ${late}s after their registration (instance time-out 33s)"
  exit 1
else
  echo "RESULT: ok - every silent instance was removed on every node within ${LIMIT}s"
fi
