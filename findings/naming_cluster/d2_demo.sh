#!/usr/bin/env bash
# d2_demo.sh - C13 defect 2 end-to-end (supporting evidence for d2_test.diff):
# an ephemeral HTTP instance misses the health time-out once, then heart-beats again every 5s.
# The node that receives the heartbeats reports it healthy at once, the other nodes go on
# reporting the heart-beating instance as unhealthy until the next 15s beat batch.
#
# usage: hunt/d2_demo.sh      (run from the worktree root, binary = target/debug/rnacos, default time-outs)
# 3-node cluster on ports 4384i (http) / 4394i (grpc+raft) / 4385i (console).
set -u
ROOT=$(cd "$(dirname "$0")/.." && pwd)
BIN=${BIN:-$ROOT/target/debug/rnacos}
WORK=$(mktemp -d /tmp/hc13_d2.XXXXXX)
NSVC=6

start_node() {
  local i=$1
  local join=""
  [ "$i" != 1 ] && join="RNACOS_RAFT_JOIN_ADDR=127.0.0.1:43941"
  env RUST_LOG=warn RNACOS_HTTP_PORT=4384$i RNACOS_GRPC_PORT=4394$i RNACOS_HTTP_CONSOLE_PORT=4385$i \
      RNACOS_RAFT_NODE_ID=$i RNACOS_RAFT_NODE_ADDR=127.0.0.1:4394$i $join \
      RNACOS_DATA_DIR=$WORK/d$i "$BIN" >>"$WORK/n$i.log" 2>&1 &
  eval "PID$i=$!"
}
BEATPID=""
cleanup() { kill $BEATPID $PID1 $PID2 $PID3 2>/dev/null; wait 2>/dev/null; rm -rf "$WORK"; }
trap cleanup EXIT

members() { curl -s "127.0.0.1:4384$1/nacos/v1/raft/metrics" | jq -c '[.current_leader, (.membership_config.members|length)]' 2>/dev/null; }
state() { # node svc -> "H" healthy, "U" listed unhealthy, "-" not listed
  curl -s "127.0.0.1:4384$1/nacos/v1/ns/instance/list?serviceName=$2&healthyOnly=false" \
    | jq -r '[.hosts[]|select(.ip!="127.0.0.1")] | if length==0 then "-" elif .[0].healthy then "H" else "U" end' 2>/dev/null
}
row() { local n=$1 r=""; for s in $(seq 1 $NSVC); do r="$r$(state $n d2svc$s)"; done; echo "$r"; }
beat_all() {
  for s in $(seq 1 $NSVC); do
    curl -s -o /dev/null -X PUT "127.0.0.1:43841/nacos/v1/ns/instance/beat?serviceName=d2svc$s&ip=10.0.0.$s&port=8080"
  done
}

echo "== start 3 nodes with the default time-outs (unhealthy after 18s, removed after 33s without heartbeat)"
start_node 1; sleep 3; start_node 2; sleep 1; start_node 3
for t in $(seq 1 40); do
  m1=$(members 1); m2=$(members 2); m3=$(members 3)
  [ "$m1" = "$m2" ] && [ "$m2" = "$m3" ] && [[ "$m1" == *",3]" ]] && break
  sleep 1
done
echo "raft metrics [leader,members] per node: $m1 $m2 $m3"
echo "== wait 50s: the start-up snapshot pulls (1s, 15s, 45s after a node start) are over"; sleep 50

echo "== $NSVC services with one ephemeral HTTP instance each (+ one persistent, reachable instance that keeps"
echo "   the service above the protect threshold so that the list shows the real health flag)"
for s in $(seq 1 $NSVC); do
  curl -s -X POST "127.0.0.1:43841/nacos/v1/ns/instance?serviceName=d2svc$s&ip=10.0.0.$s&port=8080&ephemeral=true" >/dev/null
  curl -s -X POST "127.0.0.1:43841/nacos/v1/ns/instance?serviceName=d2svc$s&ip=127.0.0.1&port=43841&ephemeral=false" >/dev/null
done
echo "== no heartbeat for 22s (health time-out 18s)"
sleep 22
echo "-- one letter per service: H healthy, U unhealthy, - not listed"
echo "node1 $(row 1)   node2 $(row 2)   node3 $(row 3)"

echo "== the client heart-beats again, every 5s, through node 1"
T0=$(date +%s.%N)
beat_all
( while true; do sleep 5; beat_all; done ) &
BEATPID=$!
bad=0; last_bad=0
for i in $(seq 1 24); do
  r1=$(row 1); r2=$(row 2); r3=$(row 3)
  el=$(printf '%.1f' "$(echo "$(date +%s.%N) - $T0" | bc)")
  mark=""
  if [[ "$r1$r2$r3" == *U* || "$r1$r2$r3" == *-* ]]; then mark="   <-- heart-beating instance reported unhealthy"; bad=$((bad+1)); last_bad=$el; fi
  echo "t=+${el}s node1 $r1   node2 $r2   node3 $r3$mark"
  sleep 1
done
if [ "$(echo "$last_bad > 3" | bc)" = 1 ]; then
  echo "RESULT: DEFECT - ${last_bad}s after its heartbeats resumed (period 5s) the instance was still reported unhealthy on some node"
  exit 1
else
  echo "RESULT: ok - every node reported the instance healthy within 3s of the first heartbeat"
fi
