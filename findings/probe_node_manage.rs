// Throw-away reproduction probe (append to src/naming/cluster/node_manage.rs of a scratch copy; `cargo test --lib probe_`). Failed before the fix commit.

#[cfg(test)]
mod probe_tests {
    use super::*;
    // R14a: nodes 1,2,3 known, node 1 down: the two live nodes must split all residues between them,
    // with the same position NodeManage::route_addr uses (position among the valid nodes)
    #[test]
    fn probe_process_range_with_down_node() {
        let mk = |id: u64, local: bool, status: NodeStatus| ClusterInnerNode { id, is_local: local, status, ..Default::default() };
        for local in [2u64, 3u64] {
            let mut m = InnerNodeManage::new(local);
            m.all_nodes.insert(1, mk(1, false, NodeStatus::Invalid));
            m.all_nodes.insert(2, mk(2, local == 2, NodeStatus::Valid));
            m.all_nodes.insert(3, mk(3, local == 3, NodeStatus::Valid));
            m.update_nodes_index();
            let r = m.get_current_process_range();
            let valid: Vec<u64> = m.all_nodes.values().filter(|n| n.status == NodeStatus::Valid).map(|n| n.id).collect();
            let pos = valid.iter().position(|id| *id == local).unwrap();
            println!("local {} range {:?} route position {}", local, r, pos);
            assert_eq!(r.len, 2);
            assert_eq!(r.index, pos, "node {} owns residue {} but routing sends residue {} to it", local, r.index, pos);
        }
    }
}
