#!/bin/bash
# End-to-end view of defect 1 with the real binary (3 local nodes, ports 3784i/3794i/3785i).
# usage: hunt/d1_demo.sh <path to rnacos binary> <empty work dir>
# Node 3 is down while [publish tenant_a/g1/d1, new namespace tenant_b, edit namespace tenant_a]
# is committed; after it is started again it gets these three entries as one replicated batch.
BIN=$1; DIR=$2
mkdir -p "$DIR"
start() { i=$1
  join=""; [ "$i" != 1 ] && join="RNACOS_RAFT_JOIN_ADDR=127.0.0.1:37941"
  env RUST_LOG=warn RNACOS_HTTP_PORT=3784$i RNACOS_GRPC_PORT=3794$i RNACOS_HTTP_CONSOLE_PORT=3785$i \
      RNACOS_RAFT_NODE_ID=$i RNACOS_RAFT_NODE_ADDR=127.0.0.1:3794$i $join \
      RNACOS_DATA_DIR="$DIR/d$i" "$BIN" > "$DIR/n$i.log" 2>&1 &
  echo $! > "$DIR/n$i.pid"
}
stop() { kill "$(cat "$DIR/n$1.pid")" 2>/dev/null; sleep 1; }
list() { curl -s "127.0.0.1:3784$1/nacos/v1/console/namespaces" | python3 -c '
import sys,json
print([(e["namespace"],e["namespaceShowName"],e["type"]) for e in json.load(sys.stdin)["data"]])'; }
trap 'for i in 1 2 3; do stop $i; done' EXIT
start 1; sleep 6; start 2; sleep 4; start 3; sleep 10
curl -s 127.0.0.1:37841/nacos/v1/raft/metrics; echo
stop 3
# the leader keeps retrying the first entry it could not deliver on its own; the entries after it
# are sent together once node 3 answers again
curl -s -X POST "127.0.0.1:37841/nacos/v1/cs/configs" -d "dataId=filler&group=g1&content=x=1"; echo
curl -s -X POST "127.0.0.1:37841/nacos/v1/cs/configs" -d "dataId=d1&group=g1&tenant=tenant_a&content=a=1"; echo
curl -s -X POST "127.0.0.1:37841/nacos/v1/console/namespaces" -d "customNamespaceId=tenant_b&namespaceName=Tenant B"; echo
curl -s -X PUT "127.0.0.1:37841/nacos/v1/console/namespaces" -d "namespace=tenant_a&namespaceShowName=Tenant A"; echo
sleep 2
start 3; sleep 8
for i in 1 2 3; do echo -n "node $i: "; list $i; done
