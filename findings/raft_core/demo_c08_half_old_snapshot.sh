#!/bin/bash
# d1: a node that joins (or comes back) while the leader's last snapshot is between threshold/2 and
# threshold entries behind the end of its log is never caught up until somebody writes more data.
#
# usage: hunt/d1_demo.sh [path-to-rnacos-binary]     (default: target/debug/rnacos of the worktree)
# exit code 0: node 2 served the data within 30 s of joining; 1: it did not.
HERE=$(cd "$(dirname "$0")" && pwd)
BIN=${1:-$HERE/../target/debug/rnacos}
. "$HERE/lib_cluster.sh"
D=${TMPDIR:-/tmp}/hc08_d1
for i in 1 2; do [ -f $D/n$i.pid ] && stop_node $i $D; done
rm -rf $D; mkdir -p $D
THRESHOLD=10

echo "## node 1 alone, RNACOS_RAFT_SNAPSHOT_LOG_SIZE=$THRESHOLD; 8 configs are published"
start_node 1 $D $THRESHOLD; sleep 4
for k in 1 2 3 4 5 6 7 8; do put_cfg 1 k$k v$k >/dev/null; done; sleep 1
echo "node1: $(metrics 1)"
echo "node1 data dir: $(ls $D/d1 | tr '\n' ' ')   (snapshot_1 = index 10)"

echo "## node 2 joins (RNACOS_RAFT_JOIN_ADDR); the join itself adds 4 log entries -> last_log_index 16,"
echo "## 6 entries after the snapshot: more than threshold/2 = 5, fewer than threshold = 10"
start_node 2 $D $THRESHOLD 127.0.0.1:39081
ok=1
for t in $(seq 1 30); do
  sleep 1
  if [ "$(get_cfg 2 k5)" = "200" ]; then ok=0; echo "node 2 serves k5 after $t s"; break; fi
done
echo "node1: $(metrics 1)"
echo "node2: $(metrics 2)"
echo "GET k5 on node1: $(get_cfg 1 k5)   on node2: $(get_cfg 2 k5)"
echo "cpu of the leader process: $(ps -o %cpu= -p $(cat $D/n1.pid))%"
if [ $ok = 1 ]; then
  echo "FAIL: 30 s after joining, node 2 still has none of the leader's data (and will not get it: nothing is written)"
  echo "## now 4 more configs are published on the leader (last_applied reaches snapshot index + threshold)"
  for k in 9 10 11 12; do put_cfg 1 k$k v$k >/dev/null; done
  for t in $(seq 1 15); do sleep 1; [ "$(get_cfg 2 k5)" = "200" ] && break; done
  echo "node2: $(metrics 2)"
  echo "GET k5 on node2: $(get_cfg 2 k5)   (served $t s after the extra writes)"
else
  echo "PASS"
fi
for i in 1 2; do stop_node $i $D; done
exit $ok
