#!/bin/bash
# D2 demo: the node that formed the cluster (bootstrap leader, nodes 2 and 3 joined it) acknowledges
# a config publish although NO other node has the entry: it commits without a quorum.
# The acknowledged write is then lost for the majority {2,3}, and node 1 diverges from them for good.
#
# usage: hunt/d2_demo.sh        (binary of this worktree, ports 3684x / 3694x / 3685x)
# exit code 1 = defect shown, 0 = behaves as the property demands
set -u
ROOT=$(cd "$(dirname "$0")/.." && pwd)
BIN=${BIN:-$ROOT/target/debug/rnacos}
W=$(mktemp -d /tmp/hc06_d2.XXXXXX)
declare -A PID

start_node() { # i
  local i=$1
  local join=()
  [ "$i" != 1 ] && join=(RNACOS_RAFT_JOIN_ADDR=127.0.0.1:36941)
  env RUST_LOG=warn RNACOS_HTTP_PORT=3684$i RNACOS_GRPC_PORT=3694$i RNACOS_HTTP_CONSOLE_PORT=3685$i \
      RNACOS_RAFT_NODE_ID=$i RNACOS_RAFT_NODE_ADDR=127.0.0.1:3694$i "${join[@]}" \
      RNACOS_DATA_DIR=$W/d$i "$BIN" >>"$W/node$i.log" 2>&1 &
  PID[$i]=$!
  disown
}
stop_node() { kill -9 ${PID[$1]} 2>/dev/null; while kill -0 ${PID[$1]} 2>/dev/null; do sleep 0.05; done; }
metrics() { curl -s -m 2 "http://127.0.0.1:3684$1/nacos/v1/raft/metrics"; }
field() { metrics "$1" | python3 -c "import sys,json; d=json.load(sys.stdin); print($2)" 2>/dev/null; }
leader_of() { field "$1" 'd.get("current_leader")'; }
members_of() { field "$1" 'len(d["membership_config"]["members"])'; }
get() { curl -s -m 3 -w ' [http %{http_code}]' "http://127.0.0.1:3684$1/nacos/v1/cs/configs?dataId=$2&group=g"; echo; }
publish() { curl -s -m 6 -w ' [http %{http_code}]' -X POST "http://127.0.0.1:3684$1/nacos/v1/cs/configs" -d "dataId=$2&group=g&content=$3"; echo; }
cleanup() { for i in 1 2 3; do kill -9 ${PID[$i]:-0} 2>/dev/null; done; rm -rf "$W"; }
trap cleanup EXIT

echo "== 1. form the cluster the documented way: node 1 bootstraps, nodes 2 and 3 join it"
start_node 1
for _ in $(seq 50); do [ "$(leader_of 1)" = 1 ] && break; sleep 0.2; done
start_node 2; sleep 2; start_node 3
for _ in $(seq 100); do
  [ "$(members_of 1)" = 3 ] && [ "$(members_of 2)" = 3 ] && [ "$(members_of 3)" = 3 ] && break; sleep 0.2
done
echo "leader=$(leader_of 1), voting members seen by node1/2/3: $(members_of 1)/$(members_of 2)/$(members_of 3)"
echo "publish k0=v0 on node 1 -> $(publish 1 k0 v0)"
sleep 1.5
for i in 1 2 3; do echo "  node$i GET k0 -> $(get $i k0)"; done

echo "== 2. nodes 2 and 3 are down (kill -9): no write can be committed now"
stop_node 2; stop_node 3
R=$(publish 1 K v1)
echo "publish K=v1 on node 1 (alone, 1 of 3 voters) -> $R"
echo "  node1 metrics: $(metrics 1)"

echo "== 3. node 1 crashes, nodes 2 and 3 come back: a majority is alive"
stop_node 1
start_node 2; start_node 3
for _ in $(seq 150); do
  NL=$(leader_of 2); { [ "$NL" = 2 ] || [ "$NL" = 3 ]; } && [ "$(leader_of 3)" = "$NL" ] && break; sleep 0.2
done
echo "new leader: $NL"
echo "publish k2=v2 on node $NL -> $(publish $NL k2 v2)"
sleep 1.5
LOST=0
for i in 2 3; do
  echo "  node$i GET k2 -> $(get $i k2)"
  G=$(get $i K); echo "  node$i GET K  -> $G"
  case "$G" in v1*) ;; *) LOST=1;; esac
done

echo "== 4. node 1 comes back as well"
start_node 1
for _ in $(seq 100); do [ "$(leader_of 1)" = "$NL" ] && break; sleep 0.2; done
sleep 4
for i in 1 2 3; do echo "  node$i GET K  -> $(get $i K)   | GET k2 -> $(get $i k2)"; done
for i in 1 2 3; do echo "  node$i metrics: $(metrics $i)"; done

case "$R" in
  true*)
    echo "RESULT: DEFECT - publish of K was answered 'true' [http 200] while only 1 of 3 voters had it;"
    [ $LOST = 1 ] && echo "        the live majority {2,3} does not serve the acknowledged K (lost write);"
    echo "        see step 4 for what node 1 serves compared to nodes 2 and 3"
    exit 1;;
  *) echo "RESULT: ok - the publish that could not be committed was not answered with success"; exit 0;;
esac
