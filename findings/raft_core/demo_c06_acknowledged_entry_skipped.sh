#!/bin/bash
# D3 demo: a publish is acknowledged by the leader (committed on a real quorum: both followers have
# the entry in their logs), the leader is killed before its next heartbeat told the followers the
# new commit index. After the election NO surviving node ever applies the entry: the new leader
# jumps over it when its own first entry commits, the follower dropped it from its apply cache on
# the leader change. The acknowledged config is not served (404) by the live majority, later
# writes do not bring it back, and a node that is restarted replays its log and serves it:
# two live nodes settle on different contents.
#
# usage: hunt/d3_demo.sh        (binary of this worktree, ports 3684x / 3694x / 3685x)
# exit code 1 = defect shown, 0 = not shown
set -u
ROOT=$(cd "$(dirname "$0")/.." && pwd)
BIN=${BIN:-$ROOT/target/debug/rnacos}
W=$(mktemp -d /tmp/hc06_d3.XXXXXX)
declare -A PID

start_node() { # i
  local i=$1
  local join=()
  [ "$i" != 1 ] && join=(RNACOS_RAFT_JOIN_ADDR=127.0.0.1:36941)
  env RUST_LOG=warn RNACOS_HTTP_PORT=3684$i RNACOS_GRPC_PORT=3694$i RNACOS_HTTP_CONSOLE_PORT=3685$i \
      RNACOS_RAFT_NODE_ID=$i RNACOS_RAFT_NODE_ADDR=127.0.0.1:3694$i "${join[@]}" \
      RNACOS_DATA_DIR=$W/d$i "$BIN" >>"$W/node$i.log" 2>&1 &
  PID[$i]=$!
  disown
}
stop_node() { kill -9 ${PID[$1]} 2>/dev/null; while kill -0 ${PID[$1]} 2>/dev/null; do sleep 0.05; done; }
metrics() { curl -s -m 2 "http://127.0.0.1:3684$1/nacos/v1/raft/metrics"; }
field() { metrics "$1" | python3 -c "import sys,json; d=json.load(sys.stdin); print($2)" 2>/dev/null; }
leader_of() { field "$1" 'd.get("current_leader")'; }
members_of() { field "$1" 'len(d["membership_config"]["members"])'; }
get() { curl -s -m 3 -w ' [http %{http_code}]' "http://127.0.0.1:3684$1/nacos/v1/cs/configs?dataId=$2&group=g"; echo; }
publish() { curl -s -m 6 -w ' [http %{http_code}]' -X POST "http://127.0.0.1:3684$1/nacos/v1/cs/configs" -d "dataId=$2&group=g&content=$3"; echo; }
cleanup() { for i in 1 2 3; do kill -9 ${PID[$i]:-0} 2>/dev/null; done; rm -rf "$W"; }
trap cleanup EXIT
# wait until all the given nodes agree on a leader that is one of them; prints it
agree() {
  local l
  for _ in $(seq 150); do
    l=$(leader_of $1); local ok=1
    case " $* " in *" $l "*) ;; *) ok=0;; esac
    for n in "$@"; do [ "$(leader_of $n)" = "$l" ] || ok=0; done
    [ $ok = 1 ] && { echo $l; return; }
    sleep 0.2
  done
  echo none
}

echo "== 1. form the cluster: node 1 bootstraps, nodes 2 and 3 join it"
start_node 1
for _ in $(seq 50); do [ "$(leader_of 1)" = 1 ] && break; sleep 0.2; done
start_node 2; sleep 2; start_node 3
for _ in $(seq 100); do
  [ "$(members_of 1)" = 3 ] && [ "$(members_of 2)" = 3 ] && [ "$(members_of 3)" = 3 ] && break; sleep 0.2
done
echo "leader=$(leader_of 1), voting members seen by node1/2/3: $(members_of 1)/$(members_of 2)/$(members_of 3)"

echo "== 2. restart node 1 once, so that the leader is a node that was elected (it replicates to both others as voters)"
stop_node 1
L=$(agree 2 3); echo "leader after the election: $L"
start_node 1
L=$(agree 1 2 3); echo "node 1 is back as a follower; leader: $L"
echo "publish k0=v0 on leader $L -> $(publish $L k0 v0)"
sleep 1.5
for i in 1 2 3; do echo "  node$i GET k0 -> $(get $i k0)"; done

SHOWN=0
for round in 1 2 3; do
  K=K$round
  echo "== 3.$round publish $K=v1 on leader $L, kill -9 the leader as soon as it has answered"
  R=$(publish $L $K v1)
  stop_node $L
  echo "answer: $R ; leader $L killed"
  S=(); for i in 1 2 3; do [ "$i" != "$L" ] && S+=($i); done
  for i in "${S[@]}"; do echo "  node$i metrics: $(metrics $i)"; done
  NL=$(agree "${S[@]}"); echo "new leader: $NL (survivors: ${S[*]} = a majority)"
  sleep 3
  MISSING=0
  for i in "${S[@]}"; do
    G=$(get $i $K); echo "  node$i GET $K -> $G"
    case "$G" in v1*) ;; *) MISSING=1;; esac
  done
  case "$R" in true*) ;; *) MISSING=0; echo "  (publish was not acknowledged, nothing to check)";; esac
  if [ $MISSING = 1 ]; then
    SHOWN=1
    echo "== 4. a later write on the new leader does not bring $K back"
    echo "publish k2=v2 on node $NL -> $(publish $NL k2 v2)"
    sleep 2.5
    for i in "${S[@]}"; do echo "  node$i GET k2 -> $(get $i k2)   | GET $K -> $(get $i $K)"; done
    for i in "${S[@]}"; do echo "  node$i metrics: $(metrics $i)"; done
    F=${S[0]}; [ "$F" = "$NL" ] && F=${S[1]}
    echo "== 5. follower $F is restarted (it replays its log), then the killed node $L as well"
    stop_node $F; start_node $F; start_node $L
    agree 1 2 3 >/dev/null
    sleep 4
    for i in 1 2 3; do echo "  node$i GET $K -> $(get $i $K)"; done
    for i in 1 2 3; do echo "  node$i metrics: $(metrics $i)"; done
    break
  fi
  echo "  all survivors serve $K; next round (without the fix this means that the kill came after a heartbeat)"
  start_node $L
  L=$(agree 1 2 3)
  sleep 1
done

if [ $SHOWN = 1 ]; then
  echo "RESULT: DEFECT - the publish was answered 'true' and is in every log, but the live majority does not serve it"
  exit 1
fi
echo "RESULT: ok - in 3 rounds every acknowledged publish was served by all survivors"
