# helper functions for the end-to-end demos (sourced)
BIN=${BIN:-$(cd "$(dirname "${BASH_SOURCE[0]}")" && pwd)/../target/debug/rnacos}
start_node() { # i dir threshold [join]
  local i=$1 dir=$2 thr=$3 join=$4
  (
    cd $dir
    env RUST_LOG=info RNACOS_HTTP_PORT=3808$i RNACOS_GRPC_PORT=3908$i RNACOS_HTTP_CONSOLE_PORT=3818$i \
      RNACOS_RAFT_NODE_ID=$i RNACOS_RAFT_NODE_ADDR=127.0.0.1:3908$i \
      ${join:+RNACOS_RAFT_JOIN_ADDR=$join} RNACOS_RAFT_SNAPSHOT_LOG_SIZE=$thr \
      RNACOS_DATA_DIR=$dir/d$i RNACOS_ENABLE_NO_AUTH_CONSOLE=true \
      $BIN > $dir/n$i.log 2>&1 &
    echo $! > $dir/n$i.pid
  )
}
stop_node() { kill -9 $(cat $2/n$1.pid) 2>/dev/null; sleep 1; }
put_cfg() { # i dataId content
  curl -s -m 5 -X POST "http://127.0.0.1:3808$1/nacos/v1/cs/configs" -d "dataId=$2&group=g&content=$3"; }
get_cfg() { # i dataId
  curl -s -m 5 -o /dev/null -w "%{http_code}" "http://127.0.0.1:3808$1/nacos/v1/cs/configs?dataId=$2&group=g"; }
metrics() { curl -s -m 5 "http://127.0.0.1:3808$1/nacos/v1/raft/metrics"; }
