// Throw-away reproduction probe (append to src/config/core.rs of a scratch copy; `cargo test --lib probe_late_tmp`).
// FAILS on the current tree: known finding R06f (not repaired). Not part of any registered check.

#[cfg(test)]
mod probe_late_tmp {
    use super::*;

    fn param(key: &ConfigKey, value: &str, history_id: u64) -> SetConfigParam {
        SetConfigParam { key: key.clone(), value: Arc::new(value.to_owned()), config_type: None, desc: None, history_id,
            history_table_id: None, op_time: now_millis_i64(), op_user: None }
    }

    // follower F: client 1 publishes A through F (routed to the leader), client 2 publishes B through another node.
    // F applies both committed entries (A at index i, B at i+1) before the leader's answer for A arrives at F; ConfigRoute::set_config
    // then sends ConfigCmd::SetTmpValue(key, A) to F's ConfigActor.
    #[test]
    fn probe_late_tmp_value_does_not_replace_newer_committed_value() {
        let mut actor = ConfigActor::new();
        let key = ConfigKey::new("app.yaml", "DEFAULT_GROUP", "");
        actor.set_config(param(&key, "A", 1)).unwrap(); // raft apply of A
        actor.set_config(param(&key, "B", 2)).unwrap(); // raft apply of B (newer)
        actor.set_tmp_config(key.clone(), Arc::new("A".to_owned())); // the late tmp value of the routed write A
        let served = actor.cache.get(&key).unwrap().content.clone();
        assert_eq!(served.as_str(), "B", "the follower serves the older value again; the other nodes serve B");
    }
}
