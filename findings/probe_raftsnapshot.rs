// Throw-away reproduction probe (append to src/raft/filestore/raftsnapshot.rs of a scratch copy). Failed before the truncate fix commit.

#[cfg(test)]
mod probe_tests {
    use super::*;
    // R01c: a partial snapshot file left by an interrupted compaction is overwritten in place
    #[tokio::test]
    async fn probe_snapshot_over_partial_file() {
        let temp = tempfile::tempdir().unwrap();
        let p = temp.path().join("snapshot_1").to_string_lossy().into_owned();
        let header = || SnapshotHeaderDto { last_index: 10, last_term: 1, member: vec![1], member_after_consensus: vec![], node_addrs: Default::default() };
        let rec = |i: u8| SnapshotRecordDto { tree: Arc::new("T_CONFIG".to_string()), key: vec![i; 8], value: vec![i; 64], op_type: 0 };
        // interrupted attempt: 6 records written, catalogue never updated
        let mut w = SnapshotWriter::init(&p, header()).await.unwrap();
        for i in 0..6 { w.write_record(&rec(i)).await.unwrap(); }
        w.flush().await.unwrap();
        drop(w);
        // next attempt reuses id 1; in the meantime 4 of the 6 keys were deleted
        let mut w = SnapshotWriter::init(&p, header()).await.unwrap();
        for i in 0..2 { w.write_record(&rec(i)).await.unwrap(); }
        w.flush().await.unwrap();
        drop(w);
        let mut r = SnapshotReader::init(&p).await.unwrap();
        let mut n = 0;
        while let Ok(Some(_)) = r.read_record().await { n += 1; }
        assert_eq!(n, 2, "deleted keys reappear from the tail of the partial snapshot file");
    }
}
