// Throw-away reproduction probe (append to src/sequence/model.rs of a scratch copy; `cargo test --lib probe_seqgroup`).
// FAILS before the fix commit "SeqGroup handed out ids of an older range after newer ones" (id 101 issued after 300), passes after.
// Not part of any registered check.

#[cfg(test)]
mod probe_seqgroup {
    use super::*;
    // the call order of SequenceManager: GetNextId -> next_id + need_apply (-> FillRange message); FillRange -> need_apply? mark, reserve (raft
    // round trip), apply_range, clear. A refill either completes before the next GetNextId (fast) or after it (slow).
    #[test]
    fn probe_seqgroup_ids_increase() {
        for slow_after in [300u64, 100, 200, 400] {
            let mut counter = 1u64; // replicated next-free value
            let mut g = SeqGroup::new(100);
            g.apply_range(counter, 100);
            counter += 100;
            let mut last = 0u64;
            let mut pending_fill = false;
            for n in 0..450 {
                let id = match g.next_id() {
                    Some(v) => v,
                    None => { g.apply_range(counter, 100); counter += 100; g.next_id().unwrap() }   // UseFromRange
                };
                assert!(id > last, "slow refill after {}: draw {}: id {} issued after {}", slow_after, n, id, last);
                last = id;
                if pending_fill {
                    // the delayed FillRange reply lands now (after this draw)
                    g.apply_range(counter, 100);
                    counter += 100;
                    g.clear_apply_mark();
                    pending_fill = false;
                }
                if g.need_apply() {
                    g.mark_apply();
                    if id == slow_after {
                        pending_fill = true;
                    } else {
                        g.apply_range(counter, 100);
                        counter += 100;
                        g.clear_apply_mark();
                    }
                }
            }
        }
    }
}
