// Throw-away reproduction probe (append to src/raft/filestore/raftapply.rs of a scratch copy; `cargo test --lib probe_installed_snapshot`).
// FAILS on the current tree: known finding R08f (not repaired). Harness adapted from the C08 seeded demonstration. Not part of any registered check.

#[cfg(test)]
mod probe_install_stale {
    use super::*;
    use crate::cache::core::DirectCacheManager;
    use crate::common::constant::NAMESPACE_TREE_NAME;
    use crate::config::core::ConfigActor;
    use crate::mcp::core::McpManager;
    use crate::namespace::model::{
        NamespaceDO, NamespaceParam, NamespaceQueryReq, NamespaceQueryResult, NamespaceRaftReq,
    };
    use crate::namespace::NamespaceActor;
    use crate::naming::core::NamingActor;
    use crate::raft::db::table::TableManager;
    use crate::raft::filestore::raftsnapshot::SnapshotWriter;
    use crate::raft::store::ClientRequest;
    use crate::sequence::core::SequenceDbManager;
    use actix::dev::channel;
    use std::collections::HashMap;
    use std::time::Duration;

    const HOT_ID: &str = "ns_hot";
    const LAST_ID: &str = "ns_zzz_last";

    /// address of an actor that is never started; the demo only stores namespace records
    fn unused_addr<A: Actor>() -> Addr<A> {
        Addr::new(channel::channel::<A>(1).0)
    }

    fn namespace_record(id: &str, name: &str) -> SnapshotRecordDto {
        let value = NamespaceDO {
            namespace_id: Some(id.to_string()),
            namespace_name: Some(name.to_string()),
            r#type: Some("2".to_string()),
        };
        SnapshotRecordDto {
            tree: NAMESPACE_TREE_NAME.clone(),
            key: id.as_bytes().to_vec(),
            value: value.to_bytes().unwrap(),
            op_type: 0,
        }
    }

    async fn namespace_name(namespace: &Addr<NamespaceActor>, id: &str) -> Option<String> {
        match namespace
            .send(NamespaceQueryReq::Info(Arc::new(id.to_string())))
            .await
            .unwrap()
            .unwrap()
        {
            NamespaceQueryResult::Info(v) => Some(v.namespace_name.clone()),
            _ => None,
        }
    }

    // a lagging follower holds namespace ns_deleted (applied at index 5). The leader deleted it at index 50 and compacted at index 100;
    // the follower is caught up by that snapshot. The snapshot does not contain ns_deleted.
    #[actix::test]
    async fn probe_installed_snapshot_replaces_the_followers_state() {
        let temp = tempfile::tempdir().unwrap();
        let base_path = Arc::new(temp.path().to_string_lossy().into_owned());
        let snapshot_path = temp.path().join("snapshot_1").to_string_lossy().into_owned();
        let mut node_addrs = HashMap::new();
        node_addrs.insert(1u64, Arc::new("127.0.0.1:9848".to_string()));
        node_addrs.insert(2u64, Arc::new("127.0.0.1:9849".to_string()));
        let header = SnapshotHeaderDto { last_index: 100, last_term: 1, member: vec![1, 2], member_after_consensus: vec![], node_addrs };
        let mut writer = SnapshotWriter::init(&snapshot_path, header).await.unwrap();
        writer.write_record(&namespace_record("ns_kept", "from-snapshot")).await.unwrap();
        writer.write_record(&namespace_record(LAST_ID, "from-snapshot")).await.unwrap();
        writer.flush().await.unwrap();
        drop(writer);

        let namespace = NamespaceActor::new(2).start();
        let index_manager = RaftIndexManager::new(base_path.clone()).start();
        let data_wrap = Arc::new(RaftDataHandler {
            config: unused_addr::<ConfigActor>(), table: unused_addr::<TableManager>(), namespace: namespace.clone(),
            sequence_db: unused_addr::<SequenceDbManager>(), mcp_manager: unused_addr::<McpManager>(),
            naming_actor: unused_addr::<NamingActor>(), direct_cache_manager: unused_addr::<DirectCacheManager>(),
        });
        let apply_manager = StateApplyManager { index_manager: Some(index_manager), snapshot_manager: None, log_manager: None,
            data_wrap: Some(data_wrap), snapshot_next_index: 1, last_applied_log: 0 }.start();
        // index 5: the namespace is created and replicated to the follower
        let create = ClientRequest::NamespaceReq(NamespaceRaftReq::Set(NamespaceParam {
            namespace_id: Arc::new("ns_deleted".to_string()), namespace_name: Some("old".to_string()), r#type: None }));
        apply_manager.send(StateApplyRequest::ApplyBatchRequest(vec![ApplyRequestDto::new(5, create)])).await.unwrap().unwrap();
        tokio::time::sleep(Duration::from_millis(100)).await;
        assert_eq!(namespace_name(&namespace, "ns_deleted").await.as_deref(), Some("old"));
        // ... the follower lags; the leader's snapshot (index 100) is installed
        let file = tokio::fs::OpenOptions::new().read(true).write(true).open(&snapshot_path).await.unwrap();
        apply_manager.send(StateApplyRequest::ApplySnapshot { snapshot: Box::new(file) }).await.unwrap().unwrap();
        let mut loaded = false;
        for _ in 0..200 {
            if namespace_name(&namespace, LAST_ID).await.is_some() { loaded = true; break; }
            tokio::time::sleep(Duration::from_millis(50)).await;
        }
        assert!(loaded, "installed snapshot was not loaded into the live state");
        assert_eq!(namespace_name(&namespace, "ns_deleted").await, None,
            "the follower still serves a namespace the leader deleted before the snapshot it was caught up with");
    }
}
