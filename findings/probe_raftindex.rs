// Throw-away reproduction probes (append to src/raft/filestore/raftindex.rs of a scratch copy; `cargo test --lib probe_`).
// probe_small_index_file_is_not_fresh and probe_last_applied_of_never_applied_store FAIL on the pinned tree 41a5f6e.

#[cfg(test)]
mod probe_tests {
    use super::*;
    #[tokio::test]
    async fn probe_small_index_file_is_not_fresh() {
        let temp = tempfile::tempdir().unwrap();
        let p = temp.path().join("index").to_string_lossy().into_owned();
        let mut m = RaftIndexInnerManager::init(&p).await.unwrap();
        let mut idx = m.raft_index.clone();
        idx.current_term = 5;
        idx.voted_for = 2;
        m.write_index(idx).await.unwrap();
        drop(m);
        let m = RaftIndexInnerManager::init(&p).await.unwrap();
        assert_eq!(m.raft_index.current_term, 5);
        assert_eq!(m.raft_index.voted_for, 2);
    }
    #[tokio::test]
    async fn probe_last_applied_of_never_applied_store() {
        let temp = tempfile::tempdir().unwrap();
        let p = temp.path().join("index").to_string_lossy().into_owned();
        let mut m = RaftIndexInnerManager::init(&p).await.unwrap();
        let mut idx = m.raft_index.clone();
        idx.member = vec![1, 2, 3];
        idx.node_addrs.insert(1, Arc::new("127.0.0.1:9848".to_string()));
        idx.node_addrs.insert(2, Arc::new("127.0.0.1:9849".to_string()));
        m.write_index(idx).await.unwrap();
        drop(m);
        let m = RaftIndexInnerManager::init(&p).await.unwrap();
        assert_eq!(m.raft_index.member, vec![1, 2, 3]);
        assert_eq!(m.last_applied_log, 0);
    }
    #[tokio::test]
    async fn probe_fresh_index_file_reopens() {
        let temp = tempfile::tempdir().unwrap();
        let p = temp.path().join("index").to_string_lossy().into_owned();
        let m = RaftIndexInnerManager::init(&p).await.unwrap();
        drop(m);
        let m = RaftIndexInnerManager::init(&p).await.unwrap();
        assert_eq!(m.raft_index.current_term, 0);
    }
}
