"""Resolved call graph over the fact base, including actix message edges and closure nesting."""
import re


_INTO = re.compile(r'^<(.+) as std::convert::Into<(.+)>>::into$')


def _nolt(t):
    """type name without lifetimes"""
    t = re.sub(r"<'[a-z_]+>", '', t or '')
    t = re.sub(r"'[a-z_]+,\s*", '', t)
    return re.sub(r"&'[a-z_]+ ", '&', t)


class CallGraph:
    def __init__(self, facts, manual_links=()):
        self.f = facts
        self.edges = {}      # def -> set(def)
        self.edge_sites = {}  # (from, to) -> [site]
        self.handlers = {}   # (actor_ty, msg_ty) -> handler body name
        for b in facts.bodies.values():
            if b.trait == 'actix::Handler' and b.name.endswith('::handle'):
                self.handlers[(b.self_ty, b.trait_args[0] if b.trait_args else None)] = b.name
        self.handlers_by_msg = {}
        for (a, m), n in self.handlers.items():
            self.handlers_by_msg.setdefault(m, []).append(n)
        # `x.into()` resolves to the blanket impl in core: link it to the crate's From impl
        self.from_impls = {}
        for b in facts.bodies.values():
            if b.trait == 'std::convert::From' and b.name.endswith('::from') and b.trait_args:
                self.from_impls[(_nolt(b.self_ty), _nolt(b.trait_args[0]))] = b.name
        for b in facts.bodies.values():
            outs = self.edges.setdefault(b.name, set())
            # closures and async blocks created in the body
            for (_, _, _, d) in b.closures_created():
                if d in facts.bodies:
                    outs.add(d)
            for s in b.sites:
                for tgt in self.targets(s):
                    outs.add(tgt)
                    self.edge_sites.setdefault((b.name, tgt), []).append(s)
        for (a, bb) in manual_links:
            facts.get(a)
            facts.get(bb)
            self.edges.setdefault(a, set()).add(bb)

    def targets(self, site):
        f = self.f
        out = []
        r = site.resolved
        if r in f.bodies:
            out.append(r)
        elif site.rfull in f.bodies:
            out.append(site.rfull)
        elif site.full in f.bodies:
            out.append(site.full)
        c = site.callee or ''
        m = _INTO.match(site.full or '') or _INTO.match(site.rfull or '')
        if m:
            h = self.from_impls.get((_nolt(m.group(2)), _nolt(m.group(1))))
            if h:
                out.append(h)
        if c.startswith('actix::Addr::<A>::') and c.split('::')[-1] in ('send', 'do_send', 'try_send'):
            ga = site.gargs
            if len(ga) >= 2:
                h = self.handlers.get((ga[0], ga[1]))
                if h:
                    out.append(h)
        elif c.startswith('actix::Recipient::<M>::') and c.split('::')[-1] in ('send', 'do_send', 'try_send'):
            ga = site.gargs
            if ga:
                out.extend(self.handlers_by_msg.get(ga[0], []))
        elif site.term.get('f', {}).get('trait') and r not in f.bodies:
            # unresolved trait method call on a generic/dyn receiver: all local impls of that trait method
            tr = site.term['f']['trait']
            m = c.split('::')[-1]
            if tr.startswith('rnacos::'):
                for b in f.bodies.values():
                    if b.trait == tr and b.name.endswith('::' + m):
                        out.append(b.name)
        return out

    def reachable(self, starts, stop=None):
        seen = set()
        stack = list(starts)
        while stack:
            n = stack.pop()
            if n in seen:
                continue
            seen.add(n)
            if stop and stop(n):
                continue
            for t in self.edges.get(n, ()):
                if t not in seen:
                    stack.append(t)
        return seen

    def path(self, start, goal_pred, stop=None):
        """BFS path of def names from start to the first node satisfying goal_pred"""
        from collections import deque
        prev = {start: None}
        q = deque([start])
        while q:
            n = q.popleft()
            if goal_pred(n):
                p = []
                while n is not None:
                    p.append(n)
                    n = prev[n]
                return p[::-1]
            if stop and stop(n) and n != start:
                continue
            for t in sorted(self.edges.get(n, ())):
                if t not in prev:
                    prev[t] = n
                    q.append(t)
        return None

    def callers(self, name):
        return sorted(a for a, outs in self.edges.items() if name in outs)
