"""CFG queries over a Body: reachability, (post)dominance, edge dominance, guard descriptors."""
from .facts import pl_local, pl_proj, pl_fields, op_place, op_const, rv_operands


def reach_from(body, starts, blocked_blocks=(), blocked_edges=()):
    """blocks reachable from `starts` (inclusive) without entering blocked blocks / taking blocked edges.
    blocked_edges: set of (src, dst, label)"""
    blocked_blocks = set(blocked_blocks)
    be = set(blocked_edges)
    seen = set()
    stack = [s for s in starts if s not in blocked_blocks]
    while stack:
        b = stack.pop()
        if b in seen:
            continue
        seen.add(b)
        for (t, lab) in body.succ[b]:
            if t in blocked_blocks or t in seen:
                continue
            if be and (b, t, lab) in be:
                continue
            stack.append(t)
    return seen


def reach_to(body, targets, blocked_blocks=()):
    """blocks from which some target is reachable"""
    blocked_blocks = set(blocked_blocks)
    seen = set()
    stack = [t for t in targets if t not in blocked_blocks]
    while stack:
        b = stack.pop()
        if b in seen:
            continue
        seen.add(b)
        for (p, lab) in body.pred[b]:
            if p in blocked_blocks or p in seen:
                continue
            stack.append(p)
    return seen


def dominates_blocks(body, a_blocks, b):
    """every path entry -> b passes one of a_blocks (b in a_blocks counts)"""
    if b in a_blocks:
        return True
    return b not in reach_from(body, [0], blocked_blocks=a_blocks)


def live_blocks(body):
    """blocks reachable from the entry (switches on literals are already reduced to their live edge in Body.succ)"""
    lb = getattr(body, '_live', None)
    if lb is None:
        lb = set(reach_from(body, [0])) | {0}
        body._live = lb
    return lb


def flag_infeasible_edges(body, start):
    """switch edges that cannot be taken on any path that begins at `start`, because the tested bool local is a flag (every definition
    assigns a literal) whose value is fixed on those paths: all of them pass an assignment of one literal and no assignment of the other
    literal is reachable from `start`. (`let mut changed = false; loop { x = ..; changed = true; } if changed { recompute }` seen from
    the assignment of x.)"""
    out = set()
    reach = reach_from(body, [start])
    for i, blk in enumerate(body.blocks):
        if i not in reach:
            continue
        t = blk['t']
        if t['k'] != 'switch':
            continue
        p = op_place(t['discr'])
        if not isinstance(p, int):
            continue
        neg = False
        l = p
        # follow `_t = copy flag` / `_t = Not(flag)` single-definition temporaries
        for _ in range(4):
            ds = body.defs.get(l, [])
            if len(ds) != 1 or ds[0][0] != 'stmt':
                break
            rv = ds[0][3]['rv']
            if rv['k'] == 'use' and isinstance(op_place(rv['op']), int):
                l = op_place(rv['op'])
            elif rv['k'] == 'un' and rv.get('op') == 'Not' and isinstance(op_place(rv['a']), int):
                l = op_place(rv['a'])
                neg = not neg
            else:
                break
        ds = body.defs.get(l, [])
        if len(ds) < 2:
            continue
        vals = []
        for (kind, bb, j, node) in ds:
            if kind != 'stmt' or node['rv']['k'] != 'use' or 'c' not in node['rv']['op']:
                vals = None
                break
            v = node['rv']['op']['c'].get('v')
            if v not in (True, False, 'true', 'false', 0, 1):
                vals = None
                break
            vals.append((bb, v in (True, 'true', 1)))
        if not vals:
            continue
        for want in (True, False):
            same = {bb for (bb, v) in vals if v == want and (bb in reach or bb == start)}
            other = {bb for (bb, v) in vals if v != want and bb in reach and bb != start}
            if not same or other:
                continue
            if start not in same and i in reach_from(body, [start], blocked_blocks=same):
                continue      # a path from start reaches the test without passing the assignment
            value = (not want) if neg else want
            tv = [x[0] for x in t['targets']]
            for (nx, lab) in body.succ[i]:
                taken_when = None
                if tv == [0]:
                    taken_when = (lab[1] == 'otherwise')
                elif tv == [1]:
                    taken_when = (lab[1] == 1)
                if taken_when is not None and taken_when != value:
                    out.add((i, nx, lab))
    return out


def must_pass_before_return(body, start, via_blocks, returns=None):
    """every path from start to a return block passes one of via_blocks (paths that contradict a literal flag set on the way are not paths)"""
    returns = body.return_blocks() if returns is None else returns
    if start in via_blocks:
        return True
    r = reach_from(body, [start], blocked_blocks=via_blocks, blocked_edges=flag_infeasible_edges(body, start))
    return not any(x in r for x in returns)


def trace_local(body, l, depth=0):
    """follow single-definition copies/moves/refs/derefs back to an origin descriptor.
    returns a dict: {'k': 'call', 'site_bb', 'term'} | {'k':'bin',...} | {'k':'place', 'pl'} | {'k':'const','c'} |
    {'k':'discr', ...} | {'k':'un','op','a'} | {'k':'arg','l'} | {'k':'unknown'}"""
    if depth > 12:
        return {'k': 'unknown'}
    ds = body.defs.get(l, [])
    if not ds:
        if 1 <= l <= body.argc:
            return {'k': 'arg', 'l': l}
        return {'k': 'unknown', 'l': l}
    if len(ds) > 1:
        return {'k': 'multi', 'l': l, 'defs': ds}
    kind, bb, j, node = ds[0]
    if kind == 'call':
        return {'k': 'call', 'bb': bb, 'term': node}
    if kind == 'yield':
        return {'k': 'yield', 'bb': bb}
    rv = node['rv']
    k = rv['k']
    if k == 'use' or (k == 'cast'):
        op = rv['op']
        c = op_const(op)
        if c is not None:
            return describe_operand(body, op, depth + 1)
        p = op_place(op)
        if isinstance(p, int):
            return trace_local(body, p, depth + 1)
        return resolve_place(body, p, depth + 1)
    if k == 'ref':
        p = rv['pl']
        if isinstance(p, int):
            return trace_local(body, p, depth + 1)
        return resolve_place(body, p, depth + 1)
    if k == 'bin':
        return {'k': 'bin', 'op': rv['op'], 'a': rv['a'], 'b': rv['b'], 'bb': bb}
    if k == 'un':
        return {'k': 'un', 'op': rv['op'], 'a': rv['a'], 'bb': bb}
    if k == 'discr':
        return {'k': 'discr', 'pl': rv['pl'], 'adt': rv.get('adt'), 'variants': rv.get('variants'), 'bb': bb}
    if k == 'agg':
        return {'k': 'agg', 'rv': rv, 'bb': bb}
    return {'k': 'unknown', 'rv': rv}


def resolve_place(body, p, depth=0):
    """a projected place: if it is only derefs of a local, trace the local; else describe as place with root origin"""
    projs = pl_proj(p)
    if all(e == '*' for e in projs):
        return trace_local(body, pl_local(p), depth + 1)
    root = trace_local(body, pl_local(p), depth + 1)
    # if root itself is a place, concatenate field paths
    fields = pl_fields(p)
    # a component of a tuple built in this body (`match (a, b) { .. }`): the value is the operand that was put there
    if root['k'] == 'agg' and root['rv'].get('ak') == 'tuple' and isinstance(projs[0], dict) and 'f' in projs[0] and str(projs[0]['f']).isdigit() \
            and int(projs[0]['f']) < len(root['rv']['ops']) and depth < 10:
        comp = describe_operand(body, root['rv']['ops'][int(projs[0]['f'])], depth + 1)
        rest = projs[1:]
        if all(e == '*' for e in rest):
            return comp
        if comp['k'] == 'place':
            return {'k': 'place', 'fields': comp['fields'] + fields[1:], 'root': comp['root'], 'pl': p}
        return {'k': 'place', 'fields': fields[1:], 'root': comp, 'pl': p}
    if root['k'] == 'place':
        return {'k': 'place', 'fields': root['fields'] + fields, 'root': root['root'], 'pl': p}
    return {'k': 'place', 'fields': fields, 'root': root, 'pl': p}


def callee_name(term):
    f = term.get('f')
    if not f:
        return None
    return f.get('r') or f['d']


def describe_operand(body, op, depth=0):
    c = op_const(op)
    if c is not None:
        if 'promoted' in c and body.promoted and c['promoted'] < len(body.promoted) and depth < 10:
            # a promoted constant (e.g. &CONST, &[..]): describe the value its tiny body computes
            pb = body.promoted[c['promoted']]
            d = trace_local(pb, 0, depth + 1)
            if d['k'] not in ('unknown', 'multi'):
                d = dict(d)
                d['promoted_body'] = pb
                return d
        return {'k': 'const', 'c': c}
    p = op_place(op)
    if p is None:
        return {'k': 'unknown'}
    if isinstance(p, int):
        return trace_local(body, p, depth)
    return resolve_place(body, p, depth)


PASS_THROUGH = (
    'std::ops::Deref::deref', 'std::ops::DerefMut::deref_mut', 'std::clone::Clone::clone', 'std::convert::AsRef::as_ref',
    'std::string::String::as_str', 'std::borrow::Borrow::borrow', 'std::convert::Into::into', 'std::convert::From::from',
    'std::option::Option::<T>::as_ref', 'std::option::Option::<T>::as_deref', 'std::option::Option::<&T>::cloned',
    'std::sync::Arc::<T, A>::as_ref', 'std::option::Option::<T>::as_mut', 'std::borrow::ToOwned::to_owned',
    'std::string::ToString::to_string', 'std::option::Option::<T>::unwrap_or_default', 'std::sync::Arc::<T>::new',
)


import re as _re
PASS_RX = _re.compile(r'::(as_bytes|to_vec|into_bytes|as_slice|to_string|to_owned|as_str)$')


def strip_calls(body, d, depth=0):
    """skip through deref/clone/as_str style calls to the first argument's origin"""
    while d['k'] == 'call' and depth < 12:
        f = d['term'].get('f')
        if not f or not d['term']['args']:
            break
        if f['d'] not in PASS_THROUGH and not PASS_RX.search(f['d']):
            break
        d = describe_operand(body, d['term']['args'][0], depth + 1)
        depth += 1
    return d


def origin_fields(body, op):
    """field path of the (deref/clone-stripped) origin of an operand, e.g. ['client_id'] ; [] if not a field place"""
    d = strip_calls(body, describe_operand(body, op))
    if d['k'] == 'place':
        return d['fields']
    return []


def switch_edges(body):
    """all (src_bb, dst_bb, label, term) for switch terminators"""
    out = []
    for i, b in enumerate(body.blocks):
        if b.get('cleanup'):
            continue
        t = b['t']
        if t['k'] == 'switch':
            for v, tb in t['targets']:
                out.append((i, tb, ('sw', v), t))
            out.append((i, t['otherwise'], ('sw', 'otherwise'), t))
    return out


def dominating_edges(body, bb):
    """switch edges (src, dst, label, term) that every path entry->bb takes (computed once per body for all blocks).
    Several edges of one switch that lead to the same block (merged match arms `A | B =>`) are also tried as a set: the label is then
    ('swset', (v1, v2, ..))."""
    cache = getattr(body, '_dom_edges', None)
    if cache is None:
        cache = {}
        full = reach_from(body, [0])
        by_switch = {}
        for (s, d, lab, t) in switch_edges(body):
            if s not in full:
                continue
            by_switch.setdefault((s, d), []).append((s, d, lab, t))
            r = reach_from(body, [0], blocked_edges={(s, d, lab)})
            for x in full - r:
                cache.setdefault(x, []).append((s, d, lab, t))
        for (s, d), es in by_switch.items():
            if len(es) < 2:
                continue
            r = reach_from(body, [0], blocked_edges={(e[0], e[1], e[2]) for e in es})
            vals = tuple(e[2][1] for e in es)
            for x in full - r:
                if not any(e in cache.get(x, []) for e in es):
                    cache.setdefault(x, []).append((s, d, ('swset', vals), es[0][3]))
        body._dom_edges = cache
        body._dom_full = full
    return cache.get(bb, [])


def edge_polarity(term, lab):
    """for a bool-like switch: True if the edge is the 'non-zero' side, False if zero side, else the raw value"""
    v = lab[1]
    tv = [x[0] for x in term['targets']]
    if v == 'otherwise':
        if tv == [0]:
            return True
        if tv == [1]:
            return False
        return ('not', tuple(tv))
    if v == 0 and tv == [0]:
        return False
    if v == 1 and tv == [1]:
        return True
    return v


def guard_atoms(body, bb):
    """conditions known to hold when control reaches bb, as a list of atoms:
       ('call', callee, polarity, term)          result of a bool call
       ('field', [fields], polarity)             bool field / place read
       ('cmp', op, descA, descB, polarity)
       ('variant', adt, variant_name, place_desc) enum discriminant test (positive) ; ('notvariant', adt, (names), desc)
       ('other', desc, polarity)"""
    gc = getattr(body, '_guard_cache', None)
    if gc is None:
        gc = {}
        body._guard_cache = gc
    if bb in gc:
        return gc[bb]
    gc[bb] = _guard_atoms(body, bb)
    return gc[bb]


def _guard_atoms(body, bb):
    atoms = []
    for (s, d, lab, t) in dominating_edges(body, bb):
        if lab[0] == 'swset':
            desc = describe_operand(body, t['discr'])
            if desc['k'] == 'discr':
                names = dict((v, n) for v, n in (desc.get('variants') or []))
                pd = describe_operand(body, {'cp': desc['pl']})
                tested = [x[0] for x in t['targets']]
                vs = []
                for v in lab[1]:
                    if v == 'otherwise':
                        vs += [n for vv, n in (desc.get('variants') or []) if vv not in tested]
                    else:
                        vs.append(names.get(v, v))
                atoms.append(('variantin', desc.get('adt'), tuple(vs), pd, s))
            continue
        pol = edge_polarity(t, lab)
        desc = describe_operand(body, t['discr'])
        neg = False
        while desc['k'] == 'un' and desc['op'] == 'Not':
            neg = not neg
            desc = describe_operand(body, desc['a'])
        if isinstance(pol, bool) and neg:
            pol = not pol
        atoms.extend(_atoms_of(body, desc, pol, lab, t, s, 0))
    return atoms


def _atoms_of(body, desc, pol, lab, t, s, depth):
    """atoms implied by `desc` having truth value / discriminant `pol`"""
    atoms = []
    if desc['k'] == 'call':
        atoms.append(('call', callee_name(desc['term']), pol, desc['term'], s))
    elif desc['k'] == 'place':
        atoms.append(('field', desc['fields'], pol, desc, s))
    elif desc['k'] == 'bin':
        atoms.append(('cmp', desc['op'], describe_operand(body, desc['a']), describe_operand(body, desc['b']), pol, s))
    elif desc['k'] == 'discr':
        names = dict((v, n) for v, n in (desc.get('variants') or []))
        pd = describe_operand(body, {'cp': desc['pl']})
        v = lab[1] if lab is not None else None
        if v == 'otherwise':
            tested = [names.get(x[0], x[0]) for x in t['targets']]
            rest = [n for vv, n in (desc.get('variants') or []) if n not in tested]
            if len(rest) == 1:
                atoms.append(('variant', desc.get('adt'), rest[0], pd, s))
            else:
                atoms.append(('notvariant', desc.get('adt'), tuple(tested), pd, s))
        elif v is not None:
            atoms.append(('variant', desc.get('adt'), names.get(v, v), pd, s))
    elif desc['k'] == 'multi' and isinstance(pol, bool) and depth < 4:
        # a named / temporary bool assigned on several paths (`let c = a && b;`): if only one definition can yield `pol`,
        # control passed through it: its own guards hold and, if it copies another condition, that condition has value `pol`
        cands = []
        for (kind, dbb, dj, node) in desc.get('defs', []):
            if kind == 'stmt' and node['rv']['k'] == 'use' and 'c' in node['rv']['op']:
                cv = node['rv']['op']['c'].get('v')
                if cv in (True, False, 'true', 'false', 0, 1):
                    if (cv in (True, 'true', 1)) == pol:
                        cands.append((kind, dbb, dj, node, 'const'))
                    continue
            cands.append((kind, dbb, dj, node, 'expr'))
        if len(cands) == 1:
            kind, dbb, dj, node, how = cands[0]
            if dbb != s:
                atoms.extend(guard_atoms(body, dbb))
            if how == 'expr':
                if kind == 'call':
                    atoms.append(('call', callee_name(node), pol, node, dbb))
                elif kind == 'stmt':
                    rv = node['rv']
                    d2 = None
                    p2 = pol
                    if rv['k'] == 'use':
                        d2 = describe_operand(body, rv['op'])
                    elif rv['k'] == 'un' and rv['op'] == 'Not':
                        d2 = describe_operand(body, rv['a'])
                        p2 = not pol
                    elif rv['k'] == 'bin':
                        d2 = {'k': 'bin', 'op': rv['op'], 'a': rv['a'], 'b': rv['b'], 'bb': dbb}
                    if d2 is not None:
                        while d2['k'] == 'un' and d2['op'] == 'Not':
                            p2 = not p2
                            d2 = describe_operand(body, d2['a'])
                        atoms.extend(_atoms_of(body, d2, p2, None, t, dbb, depth + 1))
        else:
            atoms.append(('other', desc, pol, s))
    else:
        atoms.append(('other', desc, pol, s))
    return atoms


def fmt_desc(d):
    k = d['k']
    if k == 'call':
        return 'call(%s)' % callee_name(d['term'])
    if k == 'place':
        r = d['root']
        return '%s.%s' % (fmt_desc(r), '.'.join(d['fields']))
    if k == 'const':
        c = d['c']
        return 'const(%s)' % (c.get('v', c.get('s', c.get('name', '?'))))
    if k == 'arg':
        return 'arg%d' % d['l']
    if k == 'bin':
        return 'bin(%s)' % d['op']
    return k


def fmt_atom(a):
    if a[0] == 'call':
        return '%s%s()' % ('' if a[2] is True else ('!' if a[2] is False else '%s==' % (a[2],)), a[1])
    if a[0] == 'field':
        return '%s%s' % ('' if a[2] is True else ('!' if a[2] is False else '%s==' % (a[2],)), '.'.join(a[1]))
    if a[0] == 'cmp':
        return '%s(%s %s %s)' % ('' if a[4] is True else '!', fmt_desc(a[2]), a[1], fmt_desc(a[3]))
    if a[0] == 'variant':
        return '%s is %s' % (fmt_desc(a[3]), a[2])
    if a[0] == 'notvariant':
        return '%s not in %s' % (fmt_desc(a[3]), a[2])
    if a[0] == 'variantin':
        return '%s in %s' % (fmt_desc(a[3]), a[2])
    return 'other'
