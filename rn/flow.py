"""Intra-procedural may-taint over MIR locals (flow-insensitive fixpoint, one level field sensitive)."""
from .facts import pl_local, pl_proj, pl_fields, op_place, op_const, rv_operands, rv_places


def _key_read(p):
    l = pl_local(p)
    fs = pl_fields(p)
    return l, (fs[0] if fs else None)


class Taint:
    """seeds:
         place_src(place) -> bool      : a read of this place is a source
         call_src(term) -> bool        : the result of this call is a source
         const_src(const) -> bool      : this constant operand is a source
         local_src: set of locals that are sources
       through_calls: propagate from any argument of a call to its destination (default True)
       stop_calls(term) -> bool : calls that do NOT propagate"""

    def __init__(self, body, place_src=None, call_src=None, const_src=None, local_src=(), through_calls=True,
                 stop_calls=None, mut_args=False):
        self.body = body
        self.place_src = place_src or (lambda p: False)
        self.call_src = call_src or (lambda t: False)
        self.const_src = const_src or (lambda c: False)
        self.t = set((l, None) for l in local_src)
        self.through_calls = through_calls
        self.stop_calls = stop_calls or (lambda t: False)
        self.mut_args = mut_args
        self._run()

    def place_tainted(self, p):
        if self.place_src(p):
            return True
        l, f = _key_read(p)
        if (l, None) in self.t:
            return True
        if f is not None and (l, f) in self.t:
            return True
        if f is None and not isinstance(p, int):
            pass
        # reading the whole local when only some field is tainted: count as tainted
        if f is None and any(k[0] == l for k in self.t):
            return True
        # index operands
        for e in pl_proj(p):
            if isinstance(e, dict) and 'ix' in e and self.local_tainted(e['ix']):
                return True
        return False

    def local_tainted(self, l):
        return any(k[0] == l for k in self.t)

    def op_tainted(self, op):
        c = op_const(op)
        if c is not None:
            return self.const_src(c)
        p = op_place(op)
        if p is None:
            return False
        return self.place_tainted(p)

    def _write(self, p):
        l = pl_local(p)
        fs = pl_fields(p)
        k = (l, fs[0] if fs else None)
        if k not in self.t:
            self.t.add(k)
            return True
        return False

    def _run(self):
        body = self.body
        changed = True
        while changed:
            changed = False
            for i, j, s in body.stmts():
                rv = s.get('rv')
                if rv is None:
                    continue
                tainted = any(self.op_tainted(op) for op in rv_operands(rv))
                if not tainted and rv['k'] in ('ref', 'rawptr', 'discr'):
                    tainted = self.place_tainted(rv['pl'])
                if tainted and self._write(s['d']):
                    changed = True
            for bi, b in enumerate(body.blocks):
                if b.get('cleanup'):
                    continue
                t = b['t']
                if t['k'] == 'call':
                    tainted = self.call_src(t)
                    if not tainted and self.through_calls and not self.stop_calls(t):
                        tainted = any(self.op_tainted(a) for a in t['args'])
                    if tainted:
                        if self._write(t['dst']):
                            changed = True
                    # a tainted argument handed to a call together with `&mut x` may flow into x (v.push(t), map.insert(k, t), ...)
                    if self.mut_args and not self.stop_calls(t) and any(self.op_tainted(a) for a in t['args']):
                        for a in t['args']:
                            p = op_place(a)
                            if p is None or not isinstance(p, int):
                                continue
                            for kind, dbb, dj, node in body.defs.get(p, []):
                                if kind == 'stmt' and node['rv']['k'] == 'ref' and node['rv'].get('mut'):
                                    if self._write(node['rv']['pl']):
                                        changed = True
                elif t['k'] == 'yield':
                    if self.op_tainted(t['val']) and self._write(t['dst']):
                        changed = True


def field_place_src(*fields, owner=None):
    fs = set(fields)

    def f(p):
        for e in pl_proj(p):
            if isinstance(e, dict) and 'f' in e and e['f'] in fs and (owner is None or owner in e['o']):
                return True
        return False
    return f


def roots(body, op, fp=(), depth=0, seen=None):
    """backward slice of one operand to its leaves, following EVERY definition of every local on the way (may-origin, flow-insensitive):
    set of ('arg', local, (field names...)) | ('const', repr) | ('call', callee) for argument-less calls | ('unknown', local).
    `fp` is the field path still to be applied to the value (outermost first). Calls pass all their arguments through."""
    if seen is None:
        seen = set()
    out = set()
    c = op_const(op)
    if c is not None:
        if 's' in c:
            out.add(('const', c['s']))
        elif 'v' in c:
            out.add(('const', str(c['v'])))
        elif 'promoted' in c and body.promoted and c['promoted'] < len(body.promoted):
            pb = body.promoted[c['promoted']]
            out |= _roots_local(pb, 0, fp, depth + 1, set())
        return out
    p = op_place(op)
    if p is None:
        return out
    return _roots_place(body, p, fp, depth, seen)


def _roots_place(body, p, fp, depth, seen):
    if isinstance(p, int):
        return _roots_local(body, p, fp, depth, seen)
    fs = tuple(pl_fields(p))
    out = _roots_local(body, pl_local(p), fs + tuple(fp), depth, seen)
    for e in pl_proj(p):
        if isinstance(e, dict) and 'ix' in e:
            out |= _roots_local(body, e['ix'], (), depth + 1, seen)
    return out


def _roots_local(body, l, fp, depth, seen):
    key = (id(body), l, tuple(fp))
    if key in seen or depth > 40:
        return set()
    seen.add(key)
    out = set()
    ds = body.defs.get(l, [])
    if not ds and 1 <= l <= body.argc:
        out.add(('arg', l, tuple(fp)))
    elif not ds:
        out.add(('unknown', l))
    for kind, bb, j, node in ds:
        if kind == 'call':
            args = node.get('args') or []
            if not args:
                f = node.get('func') or {}
                out.add(('call', str((f.get('c') or {}).get('fn', {}).get('full') if isinstance(f, dict) else f)))
            from . import cfg as _cfg
            nm = _cfg.callee_name(node) or ''
            thru = nm in _cfg.PASS_THROUGH or _cfg.PASS_RX.search(nm) or nm.endswith(('::into_inner', '::deref', '::deref_mut', '::as_ref', '::clone', '::borrow'))
            for k2, a in enumerate(args):
                # a pass-through call (deref, clone, as_ref, into_inner ..) hands on the same value: the field path still applies to its receiver
                out |= roots(body, a, fp if (thru and k2 == 0) else (), depth + 1, seen)
        elif kind == 'yield':
            out.add(('unknown', l))
        else:
            rv = node['rv']
            k = rv['k']
            if k in ('use', 'cast'):
                out |= roots(body, rv['op'], fp, depth + 1, seen)
            elif k == 'ref':
                out |= _roots_place(body, rv['pl'], fp, depth + 1, seen)
            elif k == 'agg':
                names = rv.get('fields') or []
                ops = rv.get('ops') or []
                if fp and rv.get('ak') == 'adt' and fp[0] in names:
                    out |= roots(body, ops[names.index(fp[0])], fp[1:], depth + 1, seen)
                elif fp and rv.get('ak') == 'tuple' and str(fp[0]).isdigit() and int(fp[0]) < len(ops):
                    out |= roots(body, ops[int(fp[0])], fp[1:], depth + 1, seen)
                else:
                    for o in ops:
                        out |= roots(body, o, (), depth + 1, seen)
            elif k in ('discr', 'len'):
                out |= _roots_place(body, rv['pl'], (), depth + 1, seen)
            else:
                for o in rv_operands(rv):
                    out |= roots(body, o, (), depth + 1, seen)
    # partial writes `l.f = x` (a parameter struct patched before use)
    for i, j, s in body.stmts():
        d = s.get('d')
        if d is not None and not isinstance(d, int) and pl_local(d) == l and 'rv' in s:
            dfs = tuple(pl_fields(d))
            if not fp or not dfs or dfs[0] == fp[0]:
                rest = tuple(fp[len(dfs):]) if fp[:len(dfs)] == dfs else ()
                rv = s['rv']
                for o in rv_operands(rv):
                    out |= roots(body, o, rest, depth + 1, seen)
                for q in rv_places(rv):
                    out |= _roots_place(body, q, rest, depth + 1, seen)
    return out
