"""Intra-procedural may-taint over MIR locals (flow-insensitive fixpoint, one level field sensitive)."""
from .facts import pl_local, pl_proj, pl_fields, op_place, op_const, rv_operands, rv_places


def _key_read(p):
    l = pl_local(p)
    fs = pl_fields(p)
    return l, (fs[0] if fs else None)


class Taint:
    """seeds:
         place_src(place) -> bool      : a read of this place is a source
         call_src(term) -> bool        : the result of this call is a source
         const_src(const) -> bool      : this constant operand is a source
         local_src: set of locals that are sources
       through_calls: propagate from any argument of a call to its destination (default True)
       stop_calls(term) -> bool : calls that do NOT propagate"""

    def __init__(self, body, place_src=None, call_src=None, const_src=None, local_src=(), through_calls=True,
                 stop_calls=None, mut_args=False):
        self.body = body
        self.place_src = place_src or (lambda p: False)
        self.call_src = call_src or (lambda t: False)
        self.const_src = const_src or (lambda c: False)
        self.t = set((l, None) for l in local_src)
        self.through_calls = through_calls
        self.stop_calls = stop_calls or (lambda t: False)
        self.mut_args = mut_args
        self._run()

    def place_tainted(self, p):
        if self.place_src(p):
            return True
        l, f = _key_read(p)
        if (l, None) in self.t:
            return True
        if f is not None and (l, f) in self.t:
            return True
        if f is None and not isinstance(p, int):
            pass
        # reading the whole local when only some field is tainted: count as tainted
        if f is None and any(k[0] == l for k in self.t):
            return True
        # index operands
        for e in pl_proj(p):
            if isinstance(e, dict) and 'ix' in e and self.local_tainted(e['ix']):
                return True
        return False

    def local_tainted(self, l):
        return any(k[0] == l for k in self.t)

    def op_tainted(self, op):
        c = op_const(op)
        if c is not None:
            return self.const_src(c)
        p = op_place(op)
        if p is None:
            return False
        return self.place_tainted(p)

    def _write(self, p):
        l = pl_local(p)
        fs = pl_fields(p)
        k = (l, fs[0] if fs else None)
        if k not in self.t:
            self.t.add(k)
            return True
        return False

    def _run(self):
        body = self.body
        changed = True
        while changed:
            changed = False
            for i, j, s in body.stmts():
                rv = s.get('rv')
                if rv is None:
                    continue
                tainted = any(self.op_tainted(op) for op in rv_operands(rv))
                if not tainted and rv['k'] in ('ref', 'rawptr', 'discr'):
                    tainted = self.place_tainted(rv['pl'])
                if tainted and self._write(s['d']):
                    changed = True
            for bi, b in enumerate(body.blocks):
                if b.get('cleanup'):
                    continue
                t = b['t']
                if t['k'] == 'call':
                    tainted = self.call_src(t)
                    if not tainted and self.through_calls and not self.stop_calls(t):
                        tainted = any(self.op_tainted(a) for a in t['args'])
                    if tainted:
                        if self._write(t['dst']):
                            changed = True
                    # a tainted argument handed to a call together with `&mut x` may flow into x (v.push(t), map.insert(k, t), ...)
                    if self.mut_args and not self.stop_calls(t) and any(self.op_tainted(a) for a in t['args']):
                        for a in t['args']:
                            p = op_place(a)
                            if p is None or not isinstance(p, int):
                                continue
                            for kind, dbb, dj, node in body.defs.get(p, []):
                                if kind == 'stmt' and node['rv']['k'] == 'ref' and node['rv'].get('mut'):
                                    if self._write(node['rv']['pl']):
                                        changed = True
                elif t['k'] == 'yield':
                    if self.op_tainted(t['val']) and self._write(t['dst']):
                        changed = True


def field_place_src(*fields, owner=None):
    fs = set(fields)

    def f(p):
        for e in pl_proj(p):
            if isinstance(e, dict) and 'f' in e and e['f'] in fs and (owner is None or owner in e['o']):
                return True
        return False
    return f
