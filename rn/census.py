"""Effect / guard census (P15): for a function and its region (closures, same-file helpers) the set of EFFECTS - assignments of fields of crate
types, actor sends (with their kind), mutating calls on fields (map / set / vec / file / timeout-set operations), calls of same-crate functions -
each with the conditions that hold on EVERY path to it (the guard atoms common to all sites of that effect).

The census of today's tree is the reference (`rules/census_ref.json`, written by `./check all --census-write`); a run compares the current tree with
it, function by function:
   * an effect of the reference is gone,
   * an effect is new,
   * an effect happens under an additional condition (it became conditional / more conditional),
   * a condition it was under is gone (it happens in more cases).
Everything the comparison uses is resolved by the compiler (field owners, callee paths, enum variants); nothing is a text position. The normal form
is chosen so that the refactorings of the false-alarm corpus leave it unchanged: sites are merged per effect (get-or-create vs the entry API),
iteration and `?` atoms are dropped (loop vs iterator chain), conditions bound to a named bool are resolved to the conditions that make it true,
unresolved disjunctions are dropped (they never count as a condition, on either side), helpers are part of the region (extract / inline method),
tuple positions are stripped from field paths (`for (k, v) in &m` vs `m.values()`).
It is a differential rule: it cannot say that today's tree is right, only that a later tree does the same things under the same conditions."""
import re, json, os
from . import cfg, util
from .facts import pl_local, pl_fields, op_place, VERIF

REF = os.path.join(VERIF, 'rules', 'census_ref.json')

MUT = re.compile(r'::(insert|remove|push|pop|clear|retain|truncate|drain|extend|append|split_off|take|add|set_len|write_all|flush|seek|sync_all|sync_data|'
                 r'remove_file|rename|remove_entry|swap_remove|dedup|push_back|pop_front|push_front|pop_back|insert_config|remove_config|insert_service|'
                 r'remove_service|timeout|set_last_id|set_valid_last_id|notify|send|do_send|try_send)$')
DROP_ATOM = re.compile(r'Iterator>::next|Iterator::next|Try>::branch|IntoFuture|Future>::poll|::poll\)|get_context|ResumeTy')


def _short(name):
    if not name:
        return '?'
    name = re.sub(r'<[^<>]*>', '', name)
    name = re.sub(r'<[^<>]*>', '', name)
    return '::'.join(name.split('::')[-2:])


def _fields_txt(fields):
    fs = [f for f in fields if not str(f).isdigit()]
    return '.'.join(fs[-2:]) if fs else ''


def _desc_txt(b, d, depth=0):
    d = cfg.strip_calls(b, d)
    k = d['k']
    if k == 'place':
        return _fields_txt(d['fields']) or 'place'
    if k == 'call':
        nm = _short(cfg.callee_name(d['term']))
        a0 = ''
        if d['term'].get('args') and depth < 2:
            a0 = _desc_txt(b, cfg.describe_operand(b, d['term']['args'][0]), depth + 1)
        return '%s(%s)' % (nm, a0)
    if k == 'const':
        c = d['c']
        return 'const(%s)' % (c.get('v', c.get('s', c.get('name', '?'))))
    if k == 'arg':
        return 'arg:%s' % (b.local_name(d['l']) or d['l'])
    if k == 'bin':
        return 'bin(%s)' % d['op']
    return k


def atom_txt(b, a):
    """canonical text of a guard atom, or None if it is not a condition the census keeps"""
    k = a[0]
    if k == 'other':
        return None
    if k == 'call':
        nm = _short(a[1])
        arg = ''
        if a[3].get('args'):
            arg = _desc_txt(b, cfg.describe_operand(b, a[3]['args'][0]))
        t = '%s(%s)' % (nm, arg)
        if DROP_ATOM.search(a[1] or ''):
            return None
        return ('' if a[2] is True else '!' if a[2] is False else '%s==' % (a[2],)) + t
    if k == 'field':
        return ('' if a[2] is True else '!' if a[2] is False else '%s==' % (a[2],)) + (_fields_txt(a[1]) or 'place')
    if k == 'cmp':
        op, da, db, pol = a[1], a[2], a[3], a[4]
        ta, tb = _desc_txt(b, da), _desc_txt(b, db)
        # canonical orientation
        flip = {'Lt': 'Gt', 'Gt': 'Lt', 'Le': 'Ge', 'Ge': 'Le', 'Eq': 'Eq', 'Ne': 'Ne'}
        neg = {'Lt': 'Ge', 'Ge': 'Lt', 'Gt': 'Le', 'Le': 'Gt', 'Eq': 'Ne', 'Ne': 'Eq'}
        if op not in flip:
            return '%s%s(%s,%s)' % ('' if pol else '!', op, ta, tb)
        if pol is False:
            op = neg[op]
        if ta > tb:
            ta, tb, op = tb, ta, flip[op]
        return '%s %s %s' % (ta, op, tb)
    if k in ('variant', 'notvariant', 'variantin'):
        src = _desc_txt(b, a[3])
        if DROP_ATOM.search(cfg.fmt_desc(a[3])):
            return None
        if k == 'variant':
            return '%s is %s' % (src, a[2])
        if k == 'variantin':
            return '%s in %s' % (src, '|'.join(sorted(str(x) for x in a[2])))
        return '%s not %s' % (src, '|'.join(sorted(str(x) for x in a[2])))
    return None


def guards_at(b, bb):
    out = set()
    for a in cfg.guard_atoms(b, bb):
        t = atom_txt(b, a)
        if t:
            out.add(t)
    return out


def _crate(name):
    return bool(name) and (name.startswith('rnacos::') or name.startswith('<rnacos::') or '<rnacos::' in name[:12])


def effects_of_body(fb, b):
    """[(key, bb)] for one body"""
    out = []
    for (o, f, bb, st) in b.field_writes():
        if _crate(o):
            out.append(('set %s.%s' % (_short(o), f), bb))
    for (s, msg, v, a) in util.sends(b):
        kind = s.callee.split('::')[-1]
        out.append(('%s %s%s -> %s' % (kind, _short(msg), ('::' + v) if v else '', _short(s.gargs[0]) if s.callee.startswith('actix::Addr') else 'recipient'), s.bb))
    for s in b.sites:
        c = s.resolved or s.callee or ''
        if not c or s.expanded:
            continue
        if util.SEND_RX.match(s.callee or ''):
            continue
        if MUT.search(c) and not _crate(c):
            rf = util.recv_fields(b, s) if s.args else []
            tgt = _fields_txt(rf)
            if not tgt:
                continue        # a mutation of a fresh local is not an effect on state
            out.append(('%s on %s' % (c.split('::')[-1], tgt), s.bb))
        elif _crate(c) and c in fb.bodies and not fb.bodies[c].parent:
            if re.search(r'::(fmt|clone|default|eq|ne|hash|from|into|new|deref|as_ref|to_string|get_[a-z_]+|is_[a-z_]+|len|build_key|to_dto|to_do|from_do)$', c):
                continue
            out.append(('call %s' % _short(c), s.bb))
    return out


def summarise(fb, root, depth=2):
    """effect key -> sorted list of the guard texts common to all its sites, for the region of `root`"""
    acc = {}
    region = util.region(fb, root, depth)

    def add(b, base, seen):
        for (key, bb) in effects_of_body(fb, b):
            g = guards_at(b, bb) | base
            acc.setdefault(key, []).append(g)
    # helpers: their effects hold under the helper's own guards plus the guards of the call site (if it is called once in the region)
    callsite_guard = {}
    for b in region:
        for s in b.sites:
            t = util._local_target(b, s)
            if t is not None and t in region and t is not b:
                callsite_guard.setdefault(t.name, []).append(guards_at(b, s.bb))
    for b in region:
        base = set()
        x = b
        hops = 0
        while x is not None and hops < 4:
            if x.parent and x.parent in fb.bodies:
                # a closure / async block: the guards at the place where it is created
                par = fb.bodies[x.parent]
                made = [i for (i, j, st, cdef) in par.closures_created() if cdef == x.name]
                if made:
                    base |= guards_at(par, made[0])
                x = par
            else:
                cg = callsite_guard.get(x.name)
                if cg and x is not root:
                    common = set.intersection(*cg) if cg else set()
                    base |= common
                x = None
            hops += 1
        add(b, base, set())
    return {k: sorted(set.intersection(*v)) for k, v in acc.items()}


def load_ref():
    if not os.path.exists(REF):
        return None
    return json.load(open(REF))


def compare(ref, cur):
    """-> list of (kind, effect, detail)"""
    out = []
    for k in sorted(set(ref) | set(cur)):
        if k not in cur:
            out.append(('gone', k, 'was under %s' % (ref[k] or 'no condition')))
        elif k not in ref:
            out.append(('new', k, 'under %s' % (cur[k] or 'no condition')))
        else:
            r, c = set(ref[k]), set(cur[k])
            if c - r:
                out.append(('narrowed', k, 'now also requires %s' % sorted(c - r)))
            if r - c:
                out.append(('widened', k, 'no longer requires %s' % sorted(r - c)))
    return out
