"""Obligation bookkeeping, VIOLATION / KNOWN-FINDING lines, evidence JSON, floors (fail closed)."""
import json, os, sys, time, hashlib, re
from .facts import AnchorMissing, VERIF

KNOWN_FILE = os.path.join(VERIF, 'KNOWN_FINDINGS.txt')


def load_known():
    known, fixed = {}, {}
    if not os.path.exists(KNOWN_FILE):
        return known, fixed
    for line in open(KNOWN_FILE):
        line = line.strip()
        if not line or line.startswith('#'):
            continue
        m = re.match(r'^(known|fixed):\s+property=(\S+)\s+(?:(\S+)\s+)?key=(\S+)\s*\|\s*(.*)$', line)
        if not m:
            continue
        kind, prop, commit, key, desc = m.groups()
        (known if kind == 'known' else fixed)[(prop, key)] = desc
    return known, fixed


class Checker:
    def __init__(self, prop, facts, tier='quick', seed=0, repo='/repo', write=True):
        self.prop = prop
        self.facts = facts
        self.tier = tier
        self.seed = seed
        self.repo = repo
        self.write = write
        self.t0 = time.time()
        self.obligations = []   # (rule, instance, status, where, msg)
        self.violations = []    # dict
        self.infos = []
        self.functions = set()
        self.sites = 0
        self.explanation = ''
        self.undecided = ''
        self.rules = {}         # rule id -> description
        self.extra = {}

    # ---- describing ----
    def rule(self, rid, text):
        self.rules[rid] = text

    def analysed(self, *bodies):
        for b in bodies:
            self.functions.add(b if isinstance(b, str) else b.name)

    # ---- anchors (fail closed) ----
    def body(self, name, rule='anchor'):
        try:
            b = self.facts.get(name)
        except AnchorMissing:
            self.bad(rule, 'anchor:' + name, '-', 'anchor function %s not found in the fact base (renamed or removed?) - '
                     'rule cannot be evaluated, failing closed' % name)
            return None
        self.functions.add(b.name)
        return b

    def main(self, name, rule='anchor'):
        try:
            b = self.facts.main(name)
        except AnchorMissing as e:
            self.bad(rule, 'anchor:' + name, '-', 'anchor function %s not found in the fact base (renamed or removed?) - '
                     'rule cannot be evaluated, failing closed' % e)
            return None
        self.functions.add(b.name)
        return b


    def borrow(self, module_name, mapping, note=''):
        """Re-report rules of another property's rule file under this property (a construct can break two properties).
        mapping: {foreign rule id: local rule id}. The foreign rule file is evaluated on a shadow checker; only the mapped rules are copied."""
        if getattr(self, 'shadow', False):
            return   # a borrowed rule file does not borrow in turn
        import importlib
        mod = importlib.import_module(module_name)
        sh = Checker(self.prop, self.facts, self.tier, self.seed, self.repo, write=False)
        sh.shadow = True
        try:
            mod.run(sh, self.facts)
        except AnchorMissing as e:
            for new in mapping.values():
                self.bad(new, 'anchor:' + str(e), '-', 'anchor missing while evaluating %s: %s' % (module_name, e))
            return
        for old, new in mapping.items():
            self.rule(new, '(= %s of %s%s) %s' % (old, module_name.split('.')[-1].upper(), (', ' + note) if note else '', sh.rules.get(old, '')))
            n = 0
            for (rule, inst, status, where, msg) in sh.obligations:
                if rule != old:
                    continue
                n += 1
                if status == 'ok':
                    self.ok(new, inst, where, msg)
                else:
                    self.bad(new, inst, where, msg)
            if n == 0:
                self.bad(new, 'floor:borrowed', '-', 'rule %s of %s produced no obligations (fail closed)' % (old, module_name))
        self.functions |= sh.functions

    # ---- results ----
    def ok(self, rule, instance, where='', msg=''):
        self.obligations.append((rule, instance, 'ok', where, msg))

    def bad(self, rule, key, where, msg, path=None):
        """key: stable identifier without line numbers (rule id is prefixed automatically)"""
        full = '%s:%s' % (rule, key)
        self.obligations.append((rule, key, 'VIOLATED', where, msg))
        self.violations.append({'rule': rule, 'key': full, 'where': where, 'msg': msg, 'path': path})

    def info(self, rule, msg):
        self.infos.append((rule, msg))

    def require(self, cond, rule, key, where, msg_bad, msg_ok=''):
        if cond:
            self.ok(rule, key, where, msg_ok)
        else:
            self.bad(rule, key, where, msg_bad)
        return cond

    def floor(self, rule, what, count, minimum):
        """fail closed when a rule matches fewer instances than were confirmed by hand"""
        if count < minimum:
            self.bad(rule, 'floor:' + what, '-', 'rule %s matched %d %s, fewer than the %d confirmed on the pinned tree: '
                     'the matcher no longer sees the code it is meant to judge (fail closed)' % (rule, count, what, minimum))
        else:
            self.ok(rule, 'floor:' + what, '', '%d >= %d' % (count, minimum))

    # ---- finish ----
    def finish(self):
        known, fixed = load_known()
        new = []
        kn = []
        seen_keys = set()
        for v in self.violations:
            if v['key'] in seen_keys:
                continue
            seen_keys.add(v['key'])
            if (self.prop, v['key']) in known:
                kn.append(v)
            else:
                new.append(v)
        lines = []
        for v in kn:
            lines.append('KNOWN-FINDING: property=%s %s at %s: %s' % (self.prop, v['key'], v['where'], v['msg']))
        rdir = os.path.join(VERIF, 'evidence', 'replay')
        for v in new:
            os.makedirs(rdir, exist_ok=True)
            h = hashlib.sha1(v['key'].encode()).hexdigest()[:10]
            rp = os.path.join(rdir, '%s-%s.json' % (self.prop, h))
            if self.write:
                with open(rp, 'w') as f:
                    json.dump({'property': self.prop, 'rule': v['rule'], 'key': v['key'], 'where': v['where'],
                               'message': v['msg'], 'path': v['path'], 'rule_text': self.rules.get(v['rule'], ''),
                               'repo': self.repo}, f, indent=1)
            lines.append('%s at %s: %s' % (v['key'], v['where'], v['msg']))
            lines.append('VIOLATION property=%s replay=%s' % (self.prop, rp))
        n_ok = sum(1 for o in self.obligations if o[2] == 'ok')
        total = len(self.obligations)
        distinct = len(set((o[0], o[1]) for o in self.obligations))
        samples = []
        seen_rules = set()
        for o in self.obligations:
            if o[0] not in seen_rules or o[2] != 'ok':
                seen_rules.add(o[0])
                samples.append({'rule': o[0], 'instance': o[1], 'status': o[2], 'where': o[3], 'detail': o[4]})
            if len(samples) >= 60:
                break
        ev = {
            'property_id': self.prop,
            'tier': self.tier,
            'seed': self.seed,
            'level': 'other',
            'coverage': {
                'explanation': self.explanation,
                'not_decided': self.undecided,
                'rules': self.rules,
                'obligations': total,
                'discharged': n_ok,
                'evaluations': total,
                'distinct_nontrivial': distinct,
                'rule': 'one obligation per (rule id, instance = function / call site / table row); distinct = distinct (rule, instance) pairs; '
                        'all are non-trivial: each instance is a construct found in the compiled program by the rule matcher',
                'functions_analysed': len(self.functions),
                'functions': sorted(self.functions)[:200],
                'known_findings_reported': [v['key'] for v in kn],
                'new_violations': [v['key'] for v in new],
                'info': ['%s: %s' % i for i in self.infos][:80],
                'samples': samples,
                'exhaustive': False,
                'fact_base': {'bodies': len(self.facts.bodies), 'dir': os.path.basename(self.facts.dir)},
                'checker_cmd': './check %s --tier %s' % (self.prop, self.tier),
                'trusted_base': ['rustc nightly name/type resolution and MIR construction (mir_promoted)',
                                 'rnfacts driver', 'python primitives in /verif/rn', 'frozen instance tables in /verif/rules'],
            },
            'assumptions': ['static analysis of /repo working tree as compiled with default features; necessary conditions only, '
                            'see coverage.not_decided'],
            'wall_s': round(time.time() - self.t0, 3),
            'violations': len(new),
        }
        ev['coverage'].update(self.extra)
        if self.write:
            os.makedirs(os.path.join(VERIF, 'evidence'), exist_ok=True)
            p = os.path.join(VERIF, 'evidence', '%s.json' % self.prop)
            tmp = p + '.tmp'
            with open(tmp, 'w') as f:
                json.dump(ev, f, indent=1)
            os.replace(tmp, p)
        return lines, (1 if new else 0), ev
