"""Truth-table obligations: exhaustive enumeration of a small pure function's atoms against an oracle."""
import itertools
from .absint import enumerate_tables, Ref, SymObj, BV, Adt, Undecided, Unsupported, Panic, NeedAtom


def check_table(ck, fb, rule, key, body, make_args, oracle, domains=None, all_atoms=None, result=lambda r: bool(r.value()),
                call_models=None):
    """oracle(assignment dict over all atoms) -> expected python value. Rows with unassigned atoms (short circuit) are checked
    against every completion. all_atoms: dict atom -> domain list, used to complete rows (defaults to discovered atoms)."""
    try:
        atoms, rows = enumerate_tables(fb, body, make_args, domains=domains, call_models=call_models)
    except (Undecided, Unsupported, Panic) as e:
        ck.bad(rule, key + ':table', body.where(), 'truth table of %s cannot be computed: %s' % (body.name, e))
        return None
    doms = {}
    for (k, ty) in atoms:
        if domains and k in domains:
            doms[k] = domains[k]
        elif domains and ty in domains:
            doms[k] = domains[ty]
        elif ty == 'bool':
            doms[k] = [False, True]
        else:
            doms[k] = ['None', 'Some']
    if all_atoms:
        for k, d in all_atoms.items():
            doms.setdefault(k, d)
    n = 0
    bad = None
    for (assign, r, calls) in rows:
        missing = [k for k in doms if k not in assign]
        for combo in itertools.product(*[doms[k] for k in missing]):
            full = dict(assign)
            full.update(dict(zip(missing, combo)))
            n += 1
            try:
                got = result(r)
            except Exception as e:
                bad = 'result not concrete for %s: %s' % (assign, e)
                break
            want = oracle(full)
            if got != want:
                bad = 'for %s the function yields %r, the property requires %r' % (full, got, want)
                break
        if bad:
            break
    ck.require(bad is None, rule, key + ':table', body.where(), bad or '', '%d rows, atoms %s' % (n, sorted(doms)))
    return atoms
