"""A small abstract interpreter over the dumped MIR.

Domains (all finite, no joins: every branch must be decided by the abstract value or the run fails):
  * BV   - fixed width bit vectors whose bits are 0, 1, a named input bit ('x', name, j) or unknown 'T'
           (exact for and/or/xor with disjoint support, shifts by constants, zero/sign extension, truncation;
           comparisons are decided through the min/max the free bits allow, otherwise Undecided is raised)
  * enumerated atoms - reads of fields of symbolic objects and results of opaque calls are looked up in an
           assignment; the caller enumerates all assignments (bool tables).
Nothing of r-nacos is executed: the interpreter walks the compiler's MIR facts."""
from .facts import pl_local, pl_proj, op_place, op_const


class Undecided(Exception):
    pass


class Unsupported(Exception):
    pass


class NeedAtom(Exception):
    def __init__(self, key, ty):
        Exception.__init__(self, '%s: %s' % (key, ty))
        self.key, self.ty = key, ty


class Panic(Exception):
    pass


INT_W = {'u8': 8, 'u16': 16, 'u32': 32, 'u64': 64, 'u128': 128, 'usize': 64, 'i8': 8, 'i16': 16, 'i32': 32, 'i64': 64,
         'i128': 128, 'isize': 64, 'bool': 1, 'char': 32}


class BV:
    __slots__ = ('w', 'bits', 'signed')

    def __init__(self, w, bits, signed=False):
        self.w = w
        self.bits = tuple(bits)
        self.signed = signed
        assert len(self.bits) == w, (w, len(self.bits))

    @staticmethod
    def const(w, v, signed=False):
        v &= (1 << w) - 1
        return BV(w, [(v >> i) & 1 for i in range(w)], signed)

    @staticmethod
    def sym(w, name, signed=False):
        return BV(w, [('x', name, i) for i in range(w)], signed)

    def is_const(self):
        return all(b in (0, 1) for b in self.bits)

    def value(self):
        if not self.is_const():
            raise Undecided('value of symbolic bit vector')
        v = sum(b << i for i, b in enumerate(self.bits))
        if self.signed and self.bits[-1] == 1:
            v -= 1 << self.w
        return v

    def umin(self):
        return sum((1 << i) for i, b in enumerate(self.bits) if b == 1)

    def umax(self):
        return sum((1 << i) for i, b in enumerate(self.bits) if b != 0)

    def rng(self):
        if self.signed:
            if self.bits[-1] == 0:
                return self.umin(), self.umax()
            if self.bits[-1] == 1:
                return self.umin() - (1 << self.w), self.umax() - (1 << self.w)
            return -(1 << (self.w - 1)), (1 << (self.w - 1)) - 1
        return self.umin(), self.umax()

    def __repr__(self):
        if self.is_const():
            return 'BV%d(%d)' % (self.w, self.value())
        return 'BV%d[%s]' % (self.w, ' '.join(str(b) if b in (0, 1, 'T') else '%s%d' % (b[1], b[2]) for b in reversed(self.bits)))


def b_and(a, b):
    if a == 0 or b == 0:
        return 0
    if a == 1:
        return b
    if b == 1:
        return a
    if a == b and a != 'T':
        return a
    return 'T'


def b_or(a, b):
    if a == 1 or b == 1:
        return 1
    if a == 0:
        return b
    if b == 0:
        return a
    if a == b and a != 'T':
        return a
    return 'T'


def b_xor(a, b):
    if a in (0, 1) and b in (0, 1):
        return a ^ b
    if a == 0:
        return b
    if b == 0:
        return a
    return 'T'


def b_not(a):
    if a in (0, 1):
        return 1 - a
    return 'T'


class Unit:
    def __repr__(self):
        return '()'


UNIT = Unit()


class Tup:
    def __init__(self, items):
        self.items = list(items)

    def __repr__(self):
        return 'Tup%r' % (self.items,)


class Adt:
    def __init__(self, adt, variant, fields, names=None):
        self.adt, self.variant, self.fields, self.names = adt, variant, list(fields), list(names or [])

    def __repr__(self):
        return '%s::%s%r' % (self.adt, self.variant, self.fields)


class VecV:
    def __init__(self, items=None):
        self.items = list(items or [])

    def __repr__(self):
        return 'Vec%r' % (self.items,)


class Ref:
    """reference to a storage cell: (frame, place) or directly to a python object (VecV, SymObj)"""

    def __init__(self, frame=None, place=None, obj=None):
        self.frame, self.place, self.obj = frame, place, obj

    def __repr__(self):
        return 'Ref(%r)' % (self.obj if self.obj is not None else self.place,)


class SymObj:
    """symbolic struct: field reads are looked up in the environment's atom assignment"""

    def __init__(self, name, adt=None):
        self.name, self.adt = name, adt

    def __repr__(self):
        return 'Sym(%s)' % self.name


class Opaque:
    def __init__(self, what):
        self.what = what

    def __repr__(self):
        return 'Opaque(%s)' % (self.what,)


class Env:
    """atom assignment for the bool-table mode"""

    def __init__(self, facts, assignment=None, field_types=None):
        self.facts = facts
        self.assign = dict(assignment or {})
        self.calls = []
        self.field_types = field_types or {}

    def atom(self, key, ty):
        if key not in self.assign:
            raise NeedAtom(key, ty)
        return self.assign[key]


class Frame:
    def __init__(self, body, nlocals):
        self.body = body
        self.locals = [None] * nlocals


class Interp:
    def __init__(self, facts, env=None, call_models=None, fuel=20000, max_depth=6):
        self.facts = facts
        self.env = env or Env(facts)
        self.models = dict(DEFAULT_MODELS)
        if call_models:
            self.models.update(call_models)
        self.fuel = fuel
        self.max_depth = max_depth
        self.trace = []

    # ---------------- values ----------------
    def const(self, c):
        if 'fn' in c:
            return Opaque('fn ' + c['fn']['full'])
        ty = c.get('ty', '')
        if 'v' in c:
            v = c['v']
            if ty == 'bool':
                return BV.const(1, 1 if v in (True, 'true', 1) else 0)
            if ty in INT_W:
                return BV.const(INT_W[ty], int(v), signed=ty.startswith('i'))
        if 's' in c:
            return Opaque(('str', c['s']))
        if c.get('zst'):
            return UNIT
        return Opaque(('const', ty, c.get('name')))

    def read_place(self, fr, p):
        l = pl_local(p)
        v = fr.locals[l]
        cur_frame, cur_local, path = fr, l, []
        for e in pl_proj(p):
            if v is None:
                raise Unsupported('read of uninitialised _%d in %s' % (l, fr.body.name))
            if e == '*':
                if not isinstance(v, Ref):
                    raise Unsupported('deref of non-ref %r' % (v,))
                if v.obj is not None:
                    v = v.obj
                else:
                    v = self.read_place(v.frame, v.place)
            elif isinstance(e, dict) and 'f' in e:
                v = self.field(v, e['f'], e.get('o'))
            elif isinstance(e, dict) and 'dc' in e:
                if isinstance(v, Adt) and v.variant != e['dc']:
                    raise Unsupported('downcast to %s of %r' % (e['dc'], v))
            elif isinstance(e, dict) and 'ix' in e:
                idx = fr.locals[e['ix']]
                i = idx.value()
                items = v.items if isinstance(v, VecV) else None
                if items is None:
                    raise Unsupported('index into %r' % (v,))
                if i >= len(items):
                    raise Panic('index %d out of bounds (len %d)' % (i, len(items)))
                v = items[i]
            else:
                raise Unsupported('projection %r' % (e,))
        if v is None:
            raise Unsupported('read of uninitialised place %r in %s' % (p, fr.body.name))
        return v

    def field(self, v, name, owner=None):
        if isinstance(v, Tup):
            return v.items[int(name)]
        if isinstance(v, Adt):
            if name in v.names:
                return v.fields[v.names.index(name)]
            if name.isdigit() and int(name) < len(v.fields):
                return v.fields[int(name)]
            raise Unsupported('field %s of %r' % (name, v))
        if isinstance(v, SymObj):
            key = '%s.%s' % (v.name, name)
            ty = self.field_type(owner, name)
            if ty not in INT_W and ty != 'bool' and ty != '?' and not ty.startswith('std::option::Option<') and key not in self.env.assign \
                    and ty not in getattr(self.env, 'domains', {}):
                return SymObj(key, adt=ty)     # a nested structure (map, vec, struct): symbolic, only call models look inside
            val = self.env.atom(key, ty)
            return self.materialise(val, ty, key)
        raise Unsupported('field %s of %r' % (name, v))

    def field_type(self, owner, name):
        if owner and owner in self.facts.adts:
            for var in self.facts.adts[owner]['variants']:
                for f in var['fields']:
                    if f[0] == name:
                        return f[1]
        return self.env.field_types.get(name, '?')

    def materialise(self, val, ty, key):
        """turn an atom value (python bool/int/None/'Some'/...) into an interpreter value"""
        if isinstance(val, bool):
            return BV.const(1, 1 if val else 0)
        if isinstance(val, int) and ty in INT_W:
            return BV.const(INT_W[ty], val, signed=ty.startswith('i'))
        if val == 'None':
            return Adt('std::option::Option', 'None', [])
        if isinstance(val, tuple) and val[0] == 'Some':
            return Adt('std::option::Option', 'Some', [val[1] if len(val) > 1 else SymObj(key + '.0')], ['0'])
        if val == 'Some':
            return Adt('std::option::Option', 'Some', [SymObj(key + '.0')], ['0'])
        if isinstance(val, (BV, Adt, SymObj, Opaque, VecV)):
            return val
        if val == 'sym':
            return SymObj(key)
        raise Unsupported('atom value %r for %s' % (val, key))

    def write_place(self, fr, p, v):
        l = pl_local(p)
        projs = pl_proj(p)
        if not projs:
            fr.locals[l] = v
            return
        # navigate to container
        base = fr.locals[l]
        frame = fr
        # handle leading deref of a ref to a local place
        rest = list(projs)
        while rest and rest[0] == '*':
            if not isinstance(base, Ref):
                raise Unsupported('write through non-ref')
            if base.obj is not None:
                # (*r)[i] = v with r a reference to a vector / slice object
                if isinstance(base.obj, VecV) and len(rest) == 2 and isinstance(rest[1], dict) and 'ix' in rest[1]:
                    n = fr.locals[rest[1]['ix']].value()
                    if n >= len(base.obj.items):
                        raise Panic('index %d out of bounds (len %d)' % (n, len(base.obj.items)))
                    base.obj.items[n] = v
                    return
                raise Unsupported('write through object ref')
            return self.write_place(base.frame, _extend(base.place, rest[1:]), v)
        cont = base
        for e in rest[:-1]:
            if isinstance(e, dict) and 'f' in e:
                cont = self.field(cont, e['f'])
            elif isinstance(e, dict) and 'dc' in e:
                pass
            else:
                raise Unsupported('write projection %r' % (e,))
        last = rest[-1]
        if isinstance(last, dict) and 'f' in last:
            if isinstance(cont, Tup):
                cont.items[int(last['f'])] = v
                return
            if isinstance(cont, Adt):
                if last['f'] in cont.names:
                    cont.fields[cont.names.index(last['f'])] = v
                    return
        raise Unsupported('write to %r' % (p,))

    def operand(self, fr, op):
        c = op_const(op)
        if c is not None:
            if 'promoted' in c:
                pb = fr.body.promoted[c['promoted']] if fr.body.promoted else None
                if pb is None:
                    raise Unsupported('promoted constant')
                return self.call_body(pb, [], 0)
            return self.const(c)
        p = op_place(op)
        if p is None:
            raise Unsupported('operand %r' % (op,))
        return self.read_place(fr, p)

    # ---------------- operations ----------------
    def decide(self, v, what=''):
        if isinstance(v, BV):
            if v.is_const():
                return v.value() & ((1 << v.w) - 1)
            raise Undecided('branch on symbolic value %r %s' % (v, what))
        raise Unsupported('branch on %r' % (v,))

    def binop(self, op, a, b):
        if op in ('Eq', 'Ne', 'Lt', 'Le', 'Gt', 'Ge'):
            if not (isinstance(a, BV) and isinstance(b, BV)):
                raise Unsupported('compare %r %r' % (a, b))
            if op in ('Eq', 'Ne'):
                diff = any(x in (0, 1) and y in (0, 1) and x != y for x, y in zip(a.bits, b.bits))
                same = a.is_const() and b.is_const() and a.bits == b.bits
                ident = a.bits == b.bits and 'T' not in a.bits
                if diff:
                    r = False
                elif same or ident:
                    r = True
                else:
                    raise Undecided('%s(%r, %r)' % (op, a, b))
                if op == 'Ne':
                    r = not r
                return BV.const(1, int(r))
            amin, amax = a.rng()
            bmin, bmax = b.rng()
            if op == 'Lt':
                t, f = amax < bmin, amin >= bmax
            elif op == 'Le':
                t, f = amax <= bmin, amin > bmax
            elif op == 'Gt':
                t, f = amin > bmax, amax <= bmin
            else:
                t, f = amin >= bmax, amax < bmin
            if t:
                return BV.const(1, 1)
            if f:
                return BV.const(1, 0)
            raise Undecided('%s(%r, %r)' % (op, a, b))
        if op in ('BitAnd', 'BitOr', 'BitXor'):
            fn = {'BitAnd': b_and, 'BitOr': b_or, 'BitXor': b_xor}[op]
            return BV(a.w, [fn(x, y) for x, y in zip(a.bits, b.bits)], a.signed)
        if op in ('Shl', 'Shr', 'ShlUnchecked', 'ShrUnchecked'):
            n = b.value() % a.w
            if op.startswith('Shl'):
                bits = [0] * n + list(a.bits[:a.w - n])
            else:
                fill = a.bits[-1] if a.signed else 0
                bits = list(a.bits[n:]) + [fill] * n
            return BV(a.w, bits, a.signed)
        if op in ('Add', 'Sub', 'Mul', 'AddWithOverflow', 'SubWithOverflow', 'MulWithOverflow', 'AddUnchecked',
                  'SubUnchecked', 'Rem', 'Div'):
            base = op.replace('WithOverflow', '').replace('Unchecked', '')
            if a.is_const() and b.is_const():
                x, y = a.value(), b.value()
                if base in ('Rem', 'Div') and y == 0:
                    raise Panic('division by zero')
                r = {'Add': x + y, 'Sub': x - y, 'Mul': x * y, 'Rem': (x % y if y else 0),
                     'Div': (x // y if y else 0)}[base]
                lo, hi = (-(1 << (a.w - 1)), (1 << (a.w - 1)) - 1) if a.signed else (0, (1 << a.w) - 1)
                ovf = not (lo <= r <= hi)
                res = BV.const(a.w, r, a.signed)
            else:
                if base == 'Add' and b.is_const() and b.value() == 0:
                    res, ovf = a, False
                elif base == 'Add' and a.is_const() and a.value() == 0:
                    res, ovf = b, False
                elif base == 'Sub' and b.is_const() and b.value() == 0:
                    res, ovf = a, False
                else:
                    res, ovf = BV(a.w, ['T'] * a.w, a.signed), None
            if op.endswith('WithOverflow'):
                if ovf is None:
                    return Tup([res, BV(1, ['T'])])
                return Tup([res, BV.const(1, int(ovf))])
            return res
        raise Unsupported('binop %s' % op)

    def cast(self, v, ty):
        if isinstance(v, BV) and ty in INT_W:
            w = INT_W[ty]
            signed = ty.startswith('i')
            if w <= v.w:
                bits = v.bits[:w]
            else:
                fill = v.bits[-1] if v.signed else 0
                bits = list(v.bits) + [fill] * (w - v.w)
            return BV(w, bits, signed)
        return v

    # ---------------- execution ----------------
    def call_body(self, body, args, depth):
        fr = Frame(body, len(body.locals))
        for i, a in enumerate(args):
            fr.locals[i + 1] = a
        bb = 0
        while True:
            self.fuel -= 1
            if self.fuel <= 0:
                raise Undecided('fuel exhausted (unbounded loop under this abstraction) in %s' % body.name)
            blk = body.blocks[bb]
            for s in blk['s']:
                if 'rv' not in s:
                    raise Unsupported('statement %r' % (s,))
                v = self.rvalue(fr, s['rv'])
                self.write_place(fr, s['d'], v)
            t = blk['t']
            k = t['k']
            if k == 'goto' or k == 'falseedge':
                bb = t['t']
            elif k == 'drop':
                bb = t['t']
            elif k == 'return':
                return fr.locals[0]
            elif k == 'switch':
                v = self.decide(self.operand(fr, t['discr']), 'at %s' % body.where(bb))
                nxt = t['otherwise']
                for val, tb in t['targets']:
                    if val == v:
                        nxt = tb
                        break
                self.trace.append((body.name, bb, v))
                bb = nxt
            elif k == 'assert':
                c = self.operand(fr, t['cond'])
                exp = 1 if t['expected'] else 0
                if isinstance(c, BV) and c.is_const():
                    if c.value() != exp:
                        raise Panic('assertion fails at %s' % body.where(bb))
                else:
                    raise Undecided('assertion on symbolic value at %s' % body.where(bb))
                bb = t['t']
            elif k == 'call':
                args_v = [self.operand(fr, a) for a in t['args']]
                r = self.call(fr, t, args_v, depth)
                self.write_place(fr, t['dst'], r)
                if 't' not in t:
                    raise Panic('diverging call at %s' % body.where(bb))
                bb = t['t']
            elif k == 'unreachable':
                raise Panic('unreachable reached at %s' % body.where(bb))
            else:
                raise Unsupported('terminator %s in %s' % (k, body.name))

    def rvalue(self, fr, rv):
        k = rv['k']
        if k == 'use':
            return self.operand(fr, rv['op'])
        if k == 'ref' or k == 'rawptr':
            p = rv['pl']
            # &*r  ==> r
            projs = pl_proj(p)
            if projs and projs[-1] == '*' :
                inner = {'l': pl_local(p), 'p': projs[:-1]} if len(projs) > 1 else pl_local(p)
                v = self.read_place(fr, inner)
                if isinstance(v, Ref):
                    return v
            try:
                v = self.read_place(fr, p)
                if isinstance(v, (VecV, SymObj)):
                    return Ref(obj=v)
            except Unsupported:
                pass
            return Ref(frame=fr, place=p)
        if k == 'bin':
            return self.binop(rv['op'], self.operand(fr, rv['a']), self.operand(fr, rv['b']))
        if k == 'un':
            a = self.operand(fr, rv['a'])
            if rv['op'] == 'Not':
                return BV(a.w, [b_not(x) for x in a.bits], a.signed)
            if rv['op'] == 'PtrMetadata':
                tgt = a.obj if isinstance(a, Ref) and a.obj is not None else (self.read_place(a.frame, a.place) if isinstance(a, Ref) else a)
                if isinstance(tgt, VecV):
                    return BV.const(64, len(tgt.items))
                raise Unsupported('PtrMetadata of %r' % (tgt,))
            if rv['op'] == 'Neg':
                return BV.const(a.w, -a.value(), a.signed)
            raise Unsupported('unop %s' % rv['op'])
        if k == 'cast':
            return self.cast(self.operand(fr, rv['op']), rv['ty'])
        if k == 'agg':
            ops = [self.operand(fr, o) for o in rv['ops']]
            if rv['ak'] == 'tuple':
                return Tup(ops) if ops else UNIT
            if rv['ak'] == 'adt':
                return Adt(rv['adt'], rv['variant'], ops, rv['fields'])
            if rv['ak'] == 'array':
                return VecV(ops)
            return Opaque(('closure', rv.get('def')))
        if k == 'discr':
            v = self.read_place(fr, rv['pl'])
            if isinstance(v, Adt):
                for val, name in rv.get('variants') or []:
                    if name == v.variant:
                        return BV.const(64, int(val), signed=True)
            raise Unsupported('discriminant of %r' % (v,))
        raise Unsupported('rvalue %s' % k)

    def call(self, fr, t, args, depth):
        f = t.get('f')
        if not f:
            raise Unsupported('indirect call')
        names = [f.get('r'), f['d'], f.get('rfull'), f['full']]
        for n in names:
            if n and n in self.models:
                return self.models[n](self, fr, t, args)
        for n in (f.get('r'), f.get('rfull'), f['full'], f['d']):
            if n and n in self.facts.bodies and depth < self.max_depth:
                return self.call_body(self.facts.bodies[n], args, depth + 1)
        # opaque call result as an atom (bool tables)
        key = 'call:%s' % (f.get('rfull') or f['full'])
        ty = fr.body.local_ty(pl_local(t['dst']))
        val = self.env.atom(key, ty)
        self.env.calls.append(key)
        return self.materialise(val, ty, key)


def _extend(place, more):
    if not more:
        return place
    if isinstance(place, int):
        return {'l': place, 'p': list(more)}
    return {'l': place['l'], 'p': list(place['p']) + list(more)}


def _deref(interp, v):
    while isinstance(v, Ref):
        if v.obj is not None:
            v = v.obj
        else:
            v = interp.read_place(v.frame, v.place)
    return v


def m_vec_new(i, fr, t, args):
    return VecV([])


def m_vec_push(i, fr, t, args):
    v = _deref(i, args[0])
    v.items.append(args[1])
    return UNIT


def m_vec_len(i, fr, t, args):
    v = _deref(i, args[0])
    return BV.const(64, len(v.items))


def m_index(i, fr, t, args):
    v = _deref(i, args[0])
    idx = args[1]
    if not isinstance(v, VecV):
        raise Unsupported('index of %r' % (v,))
    n = idx.value()
    if n >= len(v.items):
        raise Panic('index %d out of bounds (len %d)' % (n, len(v.items)))
    return Ref(obj=None, frame=_CellFrame(v.items[n]), place=0)


class _CellFrame:
    def __init__(self, v):
        self.locals = [v]
        self.body = None


def m_deref(i, fr, t, args):
    v = args[0]
    inner = _deref(i, v)
    if isinstance(inner, VecV):
        return Ref(obj=inner)
    if isinstance(inner, (SymObj,)):
        return Ref(obj=inner)
    return v


def m_identity(i, fr, t, args):
    return args[0]


def m_opt_is_none(i, fr, t, args):
    v = _deref(i, args[0])
    if not isinstance(v, Adt):
        raise Unsupported('is_none of %r' % (v,))
    return BV.const(1, int(v.variant == 'None'))


def m_opt_is_some(i, fr, t, args):
    v = _deref(i, args[0])
    if not isinstance(v, Adt):
        raise Unsupported('is_some of %r' % (v,))
    return BV.const(1, int(v.variant == 'Some'))


DEFAULT_MODELS = {
    'std::option::Option::<T>::is_none': m_opt_is_none,
    'std::option::Option::<T>::is_some': m_opt_is_some,
    'std::vec::Vec::<T>::new': m_vec_new,
    'std::vec::Vec::<T>::with_capacity': m_vec_new,
    'std::vec::Vec::<T, A>::push': m_vec_push,
    'std::vec::Vec::<T, A>::len': m_vec_len,
    '<std::vec::Vec<T, A> as std::ops::Index<I>>::index': m_index,
    '<std::vec::Vec<T, A> as std::ops::Deref>::deref': m_deref,
    '<std::sync::Arc<T, A> as std::ops::Deref>::deref': m_deref,
}


def enumerate_tables(facts, body, make_args, domains=None, call_models=None, limit=4096):
    """Exhaustively enumerate atom assignments for `body`; yields (assignment, result | exception).
    Atoms are discovered lazily (NeedAtom); domains maps type string -> list of values (default bool/Option)."""
    domains = domains or {}
    results = []
    atoms = []  # ordered list of (key, ty)

    def dom(key, ty):
        if key in domains:
            return domains[key]
        if ty in domains:
            return domains[ty]
        if ty == 'bool':
            return [False, True]
        if ty.startswith('std::option::Option<'):
            return ['None', 'Some']
        raise Unsupported('no finite domain for atom %s of type %s' % (key, ty))

    def rec(assign):
        if len(results) > limit:
            raise Unsupported('table larger than %d rows' % limit)
        env = Env(facts, assign)
        it = Interp(facts, env, call_models=call_models)
        try:
            r = it.call_body(body, make_args(), 0)
            results.append((dict(assign), r, it.env.calls))
        except NeedAtom as na:
            if (na.key, na.ty) not in atoms:
                atoms.append((na.key, na.ty))
            for v in dom(na.key, na.ty):
                a2 = dict(assign)
                a2[na.key] = v
                rec(a2)

    rec({})
    return atoms, results
