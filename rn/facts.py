"""Fact base: load the JSON emitted by the rnfacts driver, index it, fail-closed anchor lookup."""
import json, os, re, subprocess, sys, time, marshal, hashlib

VERIF = os.path.dirname(os.path.dirname(os.path.abspath(__file__)))


class AnchorMissing(Exception):
    pass


def pl_local(p):
    return p if isinstance(p, int) else p['l']


def pl_proj(p):
    return [] if isinstance(p, int) else p['p']


def pl_fields(p):
    """names of struct fields along the projection (in order)"""
    return [e['f'] for e in pl_proj(p) if isinstance(e, dict) and 'f' in e]


def pl_field_owners(p):
    return [(e['o'], e['f']) for e in pl_proj(p) if isinstance(e, dict) and 'f' in e]


def op_place(op):
    if 'cp' in op:
        return op['cp']
    if 'mv' in op:
        return op['mv']
    return None


def op_const(op):
    return op.get('c')


def rv_operands(rv):
    k = rv['k']
    if k in ('use', 'repeat', 'cast'):
        return [rv['op']]
    if k == 'bin':
        return [rv['a'], rv['b']]
    if k == 'un':
        return [rv['a']]
    if k == 'agg':
        return rv['ops']
    return []


def rv_places(rv):
    """places read by an rvalue"""
    out = []
    for op in rv_operands(rv):
        p = op_place(op)
        if p is not None:
            out.append(p)
    if rv['k'] in ('ref', 'rawptr', 'discr'):
        out.append(rv['pl'])
    return out


class Site:
    """a call terminator"""
    __slots__ = ('body', 'bb', 'term')

    def __init__(self, body, bb, term):
        self.body, self.bb, self.term = body, bb, term

    @property
    def callee(self):
        f = self.term.get('f')
        return f['d'] if f else None

    @property
    def full(self):
        f = self.term.get('f')
        return f['full'] if f else None

    @property
    def resolved(self):
        f = self.term.get('f')
        if not f:
            return None
        return f.get('r') or f['d']

    @property
    def rfull(self):
        f = self.term.get('f')
        if not f:
            return None
        return f.get('rfull') or f['full']

    @property
    def gargs(self):
        f = self.term.get('f')
        return f.get('a', []) if f else []

    @property
    def args(self):
        return self.term['args']

    @property
    def dst(self):
        return self.term['dst']

    @property
    def line(self):
        return self.term.get('fln') or self.term.get('ln')

    @property
    def expanded(self):
        return bool(self.term.get('x'))

    def where(self):
        return '%s:%s' % (self.body.file, self.line)

    def __repr__(self):
        return '<call %s in %s bb%d @%s>' % (self.full, self.body.name, self.bb, self.where())


class Body:
    def __init__(self, rec, facts):
        self.rec = rec
        self.facts = facts
        self.name = rec['def']
        self.kind = rec['kind']
        self.parent = rec.get('parent')
        self.file = rec['file']
        self.line = rec['line']
        self.end_line = rec.get('end_line', rec['line'])
        self.blocks = rec['blocks']
        self.locals = rec['locals']
        self.argc = rec['argc']
        self.self_ty = rec.get('self_ty')
        self.trait = rec.get('trait')
        self.trait_args = rec.get('trait_args', [])
        self.promoted = [Body(p, facts) for p in rec.get('promoted', [])]
        self._succ = None
        self._pred = None
        self._sites = None
        self._defs = None

    # ---- CFG (cleanup blocks and unwind edges are not part of it) ----
    @property
    def succ(self):
        if self._succ is None:
            s = []
            for i, b in enumerate(self.blocks):
                t = b['t']
                k = t['k']
                out = []
                if b.get('cleanup'):
                    s.append(out)
                    continue
                if k in ('goto', 'drop', 'assert', 'yield'):
                    out.append((t['t'], k))
                elif k == 'falseedge':
                    out.append((t['t'], k))
                elif k == 'call':
                    if 't' in t:
                        out.append((t['t'], 'call'))
                elif k == 'switch':
                    cv = self._const_discr(t['discr'])
                    if cv is not None:
                        # a switch on a literal (`if false && ..`, cfg!()) has one live edge: the others are not part of the CFG
                        hit = [(tb, ('sw', v)) for v, tb in t['targets'] if v == cv]
                        out.append(hit[0] if hit else (t['otherwise'], ('sw', 'otherwise')))
                    else:
                        for v, tb in t['targets']:
                            out.append((tb, ('sw', v)))
                        out.append((t['otherwise'], ('sw', 'otherwise')))
                s.append(out)
            self._succ = s
        return self._succ

    def _const_discr(self, op, depth=0):
        """integer value of a switch discriminant that is a literal (directly or through single-definition copies), else None"""
        if depth > 4:
            return None
        c = op_const(op)
        if c is not None:
            v = c.get('v')
            if isinstance(v, bool):
                return int(v)
            if isinstance(v, int):
                return v
            if isinstance(v, str) and v.lower() in ('true', 'false'):
                return 1 if v.lower() == 'true' else 0
            return None
        p = op_place(op)
        if isinstance(p, dict) and not p.get('p'):
            p = p.get('l')
        if not isinstance(p, int):
            return None
        ds = self.defs.get(p, [])
        if len(ds) != 1 or ds[0][0] != 'stmt':
            return None
        rv = ds[0][3].get('rv') or {}
        if rv.get('k') == 'use':
            return self._const_discr(rv['op'], depth + 1)
        if rv.get('k') == 'discr':
            # discriminant of a local that is built once as a literal variant and never borrowed mutably (async_trait's `let __ret = None;
            # if let Some(r) = __ret { return r }`): the switch has one live edge
            q = rv.get('pl')
            if isinstance(q, dict) and not q.get('p'):
                q = q.get('l')
            if not isinstance(q, int):
                return None
            qd = self.defs.get(q, [])
            if len(qd) != 1 or qd[0][0] != 'stmt':
                return None
            arv = qd[0][3].get('rv') or {}
            if arv.get('k') != 'agg' or arv.get('ak') != 'adt' or arv.get('ops'):
                return None
            for i, j, st in self.stmts():
                r2 = st.get('rv') or {}
                if r2.get('k') == 'ref' and r2.get('mut') and pl_local(r2.get('pl')) == q:
                    return None
                d2 = st.get('d')
                if d2 is not None and not isinstance(d2, int) and pl_local(d2) == q:
                    return None
            for v, n in (rv.get('variants') or []):
                if n == arv.get('variant'):
                    return v
        return None

    @property
    def pred(self):
        if self._pred is None:
            p = [[] for _ in self.blocks]
            for i, outs in enumerate(self.succ):
                for (t, lab) in outs:
                    p[t].append((i, lab))
            self._pred = p
        return self._pred

    @property
    def sites(self):
        if self._sites is None:
            out = []
            for i, b in enumerate(self.blocks):
                if b.get('cleanup'):
                    continue
                if b['t']['k'] == 'call':
                    out.append(Site(self, i, b['t']))
            self._sites = out
        return self._sites

    def calls(self, pat, resolved=True):
        """call sites whose callee path (generic, full or resolved) matches regex pat"""
        rx = re.compile(pat) if isinstance(pat, str) else pat
        out = []
        for s in self.sites:
            names = [s.callee, s.full]
            if resolved:
                names += [s.resolved, s.rfull]
            if any(n and rx.search(n) for n in names):
                out.append(s)
        return out

    def return_blocks(self):
        return [i for i, b in enumerate(self.blocks) if not b.get('cleanup') and b['t']['k'] == 'return']

    def stmts(self):
        for i, b in enumerate(self.blocks):
            if b.get('cleanup'):
                continue
            for j, s in enumerate(b['s']):
                yield i, j, s

    @property
    def defs(self):
        """local -> list of ('stmt', bb, idx, stmt) | ('call', bb, term) | ('yield', bb, term) defining the whole local"""
        if self._defs is None:
            d = {}
            for i, j, s in self.stmts():
                if 'd' in s and isinstance(s['d'], int):
                    d.setdefault(s['d'], []).append(('stmt', i, j, s))
            for i, b in enumerate(self.blocks):
                if b.get('cleanup'):
                    continue
                t = b['t']
                if t['k'] in ('call', 'yield') and isinstance(t.get('dst'), int):
                    d.setdefault(t['dst'], []).append((t['k'], i, None, t))
            self._defs = d
        return self._defs

    def local_name(self, l):
        return self.locals[l].get('n')

    def local_ty(self, l):
        return self.locals[l]['t']

    def locals_named(self, name):
        return [i for i, l in enumerate(self.locals) if l.get('n') == name]

    def where(self, bb=None, line=None):
        if line is None and bb is not None:
            line = self.blocks[bb]['t'].get('ln')
        return '%s:%s' % (self.file, line if line is not None else self.line)

    def field_writes(self):
        """[(owner, field, bb, stmt)] for assignments into a struct field place"""
        out = []
        for i, j, s in self.stmts():
            if 'd' in s and not isinstance(s['d'], int):
                fo = pl_field_owners(s['d'])
                if fo:
                    out.append((fo[-1][0], fo[-1][1], i, s))
        return out

    def field_reads(self):
        out = []
        for i, j, s in self.stmts():
            if 'rv' in s:
                for p in rv_places(s['rv']):
                    for (o, f) in pl_field_owners(p):
                        out.append((o, f, i, s))
        for i, b in enumerate(self.blocks):
            if b.get('cleanup'):
                continue
            t = b['t']
            ops = []
            if t['k'] == 'call':
                ops = t['args']
            elif t['k'] == 'switch':
                ops = [t['discr']]
            for op in ops:
                p = op_place(op)
                if p is not None:
                    for (o, f) in pl_field_owners(p):
                        out.append((o, f, i, t))
        return out

    def consts(self):
        """all constant operands in the body: list of (bb, const dict)"""
        out = []
        for i, j, s in self.stmts():
            if 'rv' in s:
                for op in rv_operands(s['rv']):
                    c = op_const(op)
                    if c is not None:
                        out.append((i, c))
        for i, b in enumerate(self.blocks):
            if b.get('cleanup'):
                continue
            t = b['t']
            if t['k'] == 'call':
                for op in t['args']:
                    c = op_const(op)
                    if c is not None:
                        out.append((i, c))
        return out

    def aggregates(self, adt_pat=None, variant=None):
        rx = re.compile(adt_pat) if adt_pat else None
        out = []
        for i, j, s in self.stmts():
            rv = s.get('rv')
            if rv and rv['k'] == 'agg' and rv.get('ak') == 'adt':
                if rx and not rx.search(rv['adt']):
                    continue
                if variant is not None and rv['variant'] != variant:
                    continue
                out.append((i, j, s))
        return out

    def closures_created(self):
        out = []
        for i, j, s in self.stmts():
            rv = s.get('rv')
            if rv and rv['k'] == 'agg' and rv.get('ak') in ('closure', 'coroutine', 'coroutine_closure'):
                out.append((i, j, s, rv['def']))
        return out


class Facts:
    def __init__(self, dirpath, files=('rnacos-lib.json', 'rnacos-bin.json')):
        self.dir = dirpath
        self.bodies = {}
        self.adts = {}
        self.dups = {}
        t0 = time.time()
        import gc, pickle
        gc.disable()   # the fact base is one big acyclic structure; the cyclic GC only costs time while loading it
        for fn in files:
            p = os.path.join(dirpath, fn)
            mp = p + '.pkl'
            d = None
            if os.path.exists(mp) and os.path.getmtime(mp) >= os.path.getmtime(p):
                try:
                    with open(mp, 'rb') as f:
                        d = pickle.load(f)
                except Exception:
                    d = None
            if d is None:
                with open(p) as f:
                    d = json.load(f)
                try:
                    tmp = mp + '.%d' % os.getpid()
                    with open(tmp, 'wb') as f:
                        pickle.dump(d, f, protocol=4)
                    os.replace(tmp, mp)
                except Exception:
                    pass
            for rec in d['bodies']:
                b = Body(rec, self)
                if b.name in self.bodies:
                    self.dups.setdefault(b.name, []).append(b)
                else:
                    self.bodies[b.name] = b
            for a in d['adts']:
                self.adts[a['def']] = a
        self.children = {}
        for b in self.bodies.values():
            if b.parent:
                self.children.setdefault(b.parent, []).append(b.name)
        self.load_s = time.time() - t0
        gc.freeze()
        self._by_trait = None

    def get(self, name):
        b = self.bodies.get(name)
        if b is None:
            raise AnchorMissing(name)
        return b

    def has(self, name):
        return name in self.bodies

    def tree(self, name):
        """the body and all closures / async blocks nested in it (transitively), outermost first"""
        out = [self.get(name)]
        i = 0
        while i < len(out):
            for c in sorted(self.children.get(out[i].name, [])):
                out.append(self.bodies[c])
            i += 1
        return out

    def main(self, name):
        """the body holding the code of `name`: for an async fn its {closure#0} coroutine"""
        b = self.get(name)
        cc = b.closures_created()
        nb = sum(1 for x in b.blocks if not x.get('cleanup'))
        if nb <= 8 and len(cc) == 1 and cc[0][2]['rv']['ak'] == 'coroutine':
            return self.get(cc[0][3])
        return b

    def find(self, pat):
        rx = re.compile(pat)
        return [b for n, b in self.bodies.items() if rx.search(n)]

    def impls(self, trait_pat, self_pat=None, targ_pat=None, method=None):
        """trait impl method bodies"""
        out = []
        rt = re.compile(trait_pat)
        rs = re.compile(self_pat) if self_pat else None
        ra = re.compile(targ_pat) if targ_pat else None
        for b in self.bodies.values():
            if b.trait and rt.search(b.trait):
                if rs and not rs.search(b.self_ty or ''):
                    continue
                if ra and not any(ra.search(a) for a in b.trait_args):
                    continue
                if method and not b.name.endswith('::' + method):
                    continue
                out.append(b)
        return out

    def root_of(self, name):
        b = self.bodies[name]
        while b.parent and b.parent in self.bodies:
            b = self.bodies[b.parent]
        return b.name

    def adt(self, name):
        a = self.adts.get(name)
        if a is None:
            raise AnchorMissing('adt ' + name)
        return a

    def variants(self, name):
        return [v['name'] for v in self.adt(name)['variants']]

    def struct_fields(self, name):
        return [f[0] for f in self.adt(name)['variants'][0]['fields']]


def extract(repo='/repo', features=''):
    """run the extraction for the current working tree of `repo`; returns the fact dir"""
    cmd = [os.path.join(VERIF, 'bin', 'extract.sh'), repo, features]
    r = subprocess.run(cmd, stdout=subprocess.PIPE, stderr=subprocess.PIPE, text=True)
    if r.returncode != 0:
        sys.stderr.write(r.stderr)
        raise RuntimeError('fact extraction failed (does /repo compile?)')
    return r.stdout.strip().splitlines()[-1]


_cache = {}


def load(repo='/repo', features=''):
    key = (repo, features)
    if key not in _cache:
        d = extract(repo, features)
        _cache[key] = Facts(d)
        _cache[key].repo = repo
    return _cache[key]


def load_dep(repo='/repo', crate='async_raft_ext'):
    """facts of one dependency crate as the repository's build resolves it (bin/extract_dep.sh); cached per resolved source"""
    key = ('dep', repo, crate)
    if key not in _cache:
        cmd = [os.path.join(VERIF, 'bin', 'extract_dep.sh'), repo, crate]
        r = subprocess.run(cmd, stdout=subprocess.PIPE, stderr=subprocess.PIPE, text=True)
        if r.returncode != 0:
            sys.stderr.write(r.stderr)
            raise RuntimeError('dependency fact extraction failed for %s' % crate)
        d = r.stdout.strip().splitlines()[-1]
        _cache[key] = Facts(d, files=('%s-lib.json' % crate,))
    return _cache[key]
