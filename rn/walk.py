"""Reachability under an assignment of named conditions (finite truth-table walks over a CFG)."""
from . import cfg


def bool_labels(term, value):
    tv = [x[0] for x in term['targets']]
    if tv == [0]:
        return {('sw', 'otherwise')} if value else {('sw', 0)}
    if tv == [1]:
        return {('sw', 1)} if value else {('sw', 'otherwise')}
    return None


def variant_labels(term, variants, want):
    """labels of a discriminant switch taken when the enum is variant `want`"""
    val = None
    for v, n in variants or []:
        if n == want:
            val = v
    if val is None:
        return None
    tv = [x[0] for x in term['targets']]
    if val in tv:
        return {('sw', val)}
    return {('sw', 'otherwise')}


def reach_under(b, decide):
    seen = set()
    stack = [0]
    while stack:
        x = stack.pop()
        if x in seen:
            continue
        seen.add(x)
        t = b.blocks[x]['t']
        allowed = decide(x, t) if t['k'] == 'switch' else None
        for (nx, lab) in b.succ[x]:
            if allowed is not None and lab not in allowed:
                continue
            if nx not in seen:
                stack.append(nx)
    return seen


def walker(b, classify, env):
    """classify(desc, term) -> None | ('bool', name) | ('variant', name) ; env[name] -> bool | variant name"""
    def decide(bb, term):
        d = cfg.describe_operand(b, term['discr'])
        neg = False
        while d['k'] == 'un' and d['op'] == 'Not':
            neg = not neg
            d = cfg.describe_operand(b, d['a'])
        c = classify(d, term)
        if c is None:
            return None
        kind, name = c
        if name not in env:
            return None
        if kind == 'bool':
            v = env[name]
            if neg:
                v = not v
            return bool_labels(term, v)
        if kind == 'variant':
            return variant_labels(term, d.get('variants'), env[name])
        return None
    return reach_under(b, decide)


def _latest_def(b, defs):
    if len(defs) == 1:
        return defs[0]
    for d in defs:
        ok = True
        for e in defs:
            if e is d:
                continue
            if not (d[1] in cfg.reach_from(b, [e[1]]) and e[1] not in cfg.reach_from(b, [d[1]])):
                ok = False
        if ok:
            return d
    return None


def resolve_flag(b, local, reach, env, call_name, depth=0):
    """value of a flag local at its test, given the blocks feasible under env: the latest feasible definition wins.
    call_name(term) -> env key for call results. Returns bool or None (undetermined)."""
    if depth > 6:
        return None
    defs = [d for d in b.defs.get(local, []) if d[1] in reach]
    if not defs:
        return None
    d = _latest_def(b, defs)
    if d is None:
        return None
    kind, bb, j, node = d
    if kind == 'call':
        k = call_name(node)
        return env.get(k) if k else None
    rv = node['rv']
    if rv['k'] == 'un' and rv.get('op') == 'Not':
        v = _eval_op(b, rv['a'], reach, env, call_name, depth + 1)
        return None if v is None else (not v)
    if rv['k'] == 'use':
        return _eval_op(b, rv['op'], reach, env, call_name, depth + 1)
    return None


def _eval_op(b, op, reach, env, call_name, depth):
    if 'c' in op:
        v = op['c'].get('v')
        return v in (True, 'true', 1)
    from .facts import op_place, pl_local, pl_proj
    p = op_place(op)
    if p is None:
        return None
    if not pl_proj(p):
        return resolve_flag(b, pl_local(p), reach, env, call_name, depth + 1)
    # a projected place (field read): let the rule name it through call_name({'place': p})
    k = call_name({'place': p})
    return env.get(k) if k else None


def _discr_local(d):
    """the local whose discriminant is switched on, when the place is a bare local (possibly behind derefs)"""
    from .facts import pl_local, pl_proj
    if d['k'] != 'discr':
        return None
    p = d['pl']
    if isinstance(p, int):
        return p
    if all(e == '*' for e in pl_proj(p)):
        return pl_local(p)
    return None


def resolve_variant(b, local, reach):
    """variant of an enum-valued local that is assigned in several branches, given the blocks feasible under env: known when every feasible
    definition builds the same variant (`let x = match .. { (Some(a), Some(b)) => Some((a, b)), _ => None }` under an env that excludes `_`)"""
    defs = [d for d in b.defs.get(local, []) if d[1] in reach]
    if not defs:
        return None
    vs = set()
    for kind, bb, j, node in defs:
        if kind != 'stmt':
            return None
        rv = node['rv']
        if rv['k'] == 'agg' and rv.get('ak') == 'adt':
            vs.add(rv.get('variant'))
        else:
            return None
    return vs.pop() if len(vs) == 1 else None


def table_walk(b, classify, env, call_name=lambda t: None, rounds=4):
    """walk under env; switches on multi-def flag locals are resolved from their latest feasible definition, switches on the variant of a
    multi-def enum local from the variant all its feasible definitions build"""
    flags = {}

    def classify2(d, term):
        if d['k'] == 'multi' and d.get('l') in flags:
            return ('bool', ('flag', d['l']))
        l = _discr_local(d)
        if l is not None and ('v', l) in flags:
            return ('variant', ('flag', ('v', l)))
        return classify(d, term)
    r = None
    for _ in range(rounds):
        env2 = dict(env)
        for l, v in flags.items():
            env2[('flag', l)] = v
        r = walker(b, classify2, env2)
        new = {}
        for (s, dst, lab, t) in cfg.switch_edges(b):
            if s not in r:
                continue
            d = cfg.describe_operand(b, t['discr'])
            neg = False
            while d['k'] == 'un' and d['op'] == 'Not':
                d = cfg.describe_operand(b, d['a'])
            if d['k'] == 'multi':
                v = resolve_flag(b, d['l'], r, env, call_name)
                if v is not None:
                    new[d['l']] = v
            l = _discr_local(d)
            if l is not None and len(b.defs.get(l, [])) > 1 and classify(d, t) is None:
                v = resolve_variant(b, l, r)
                if v is not None:
                    new[('v', l)] = v
        if new == flags:
            break
        flags = new
    return r, flags


def escapes_under(b, classify, env, via_blocks, escape_edges=(), call_name=lambda t: None):
    """return blocks that can be reached from the entry, under the assignment `env` of the named conditions (all other conditions free), without
    passing a block of via_blocks and without taking one of escape_edges ((src, dst, label)). Empty list = under env every way through the function
    passes via_blocks or leaves through an escape edge."""
    r, flags = table_walk(b, classify, env, call_name)

    def classify2(d, term):
        if d['k'] == 'multi' and d.get('l') in flags:
            return ('bool', ('flag', d['l']))
        l = _discr_local(d)
        if l is not None and ('v', l) in flags:
            return ('variant', ('flag', ('v', l)))
        return classify(d, term)
    env2 = dict(env)
    for l, v in flags.items():
        env2[('flag', l)] = v
    esc = set(escape_edges)
    via = set(via_blocks)
    seen = set()
    stack = [0]
    while stack:
        x = stack.pop()
        if x in seen or x in via:
            continue
        seen.add(x)
        t = b.blocks[x]['t']
        allowed = None
        if t['k'] == 'switch':
            d = cfg.describe_operand(b, t['discr'])
            neg = False
            while d['k'] == 'un' and d['op'] == 'Not':
                neg = not neg
                d = cfg.describe_operand(b, d['a'])
            c = classify2(d, t)
            if c is not None and c[1] in env2:
                if c[0] == 'bool':
                    v = env2[c[1]]
                    allowed = bool_labels(t, (not v) if neg else v)
                elif c[0] == 'variant':
                    allowed = variant_labels(t, d.get('variants'), env2[c[1]])
        for (nx, lab) in b.succ[x]:
            if allowed is not None and lab not in allowed:
                continue
            if (x, nx, lab) in esc:
                continue
            stack.append(nx)
    return [x for x in b.return_blocks() if x in seen]
