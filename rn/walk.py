"""Reachability under an assignment of named conditions (finite truth-table walks over a CFG)."""
from . import cfg


def bool_labels(term, value):
    tv = [x[0] for x in term['targets']]
    if tv == [0]:
        return {('sw', 'otherwise')} if value else {('sw', 0)}
    if tv == [1]:
        return {('sw', 1)} if value else {('sw', 'otherwise')}
    return None


def variant_labels(term, variants, want):
    """labels of a discriminant switch taken when the enum is variant `want`"""
    val = None
    for v, n in variants or []:
        if n == want:
            val = v
    if val is None:
        return None
    tv = [x[0] for x in term['targets']]
    if val in tv:
        return {('sw', val)}
    return {('sw', 'otherwise')}


def reach_under(b, decide):
    seen = set()
    stack = [0]
    while stack:
        x = stack.pop()
        if x in seen:
            continue
        seen.add(x)
        t = b.blocks[x]['t']
        allowed = decide(x, t) if t['k'] == 'switch' else None
        for (nx, lab) in b.succ[x]:
            if allowed is not None and lab not in allowed:
                continue
            if nx not in seen:
                stack.append(nx)
    return seen


def walker(b, classify, env):
    """classify(desc, term) -> None | ('bool', name) | ('variant', name) ; env[name] -> bool | variant name"""
    def decide(bb, term):
        d = cfg.describe_operand(b, term['discr'])
        neg = False
        while d['k'] == 'un' and d['op'] == 'Not':
            neg = not neg
            d = cfg.describe_operand(b, d['a'])
        c = classify(d, term)
        if c is None:
            return None
        kind, name = c
        if name not in env:
            return None
        if kind == 'bool':
            v = env[name]
            if neg:
                v = not v
            return bool_labels(term, v)
        if kind == 'variant':
            return variant_labels(term, d.get('variants'), env[name])
        return None
    return reach_under(b, decide)


def _latest_def(b, defs):
    if len(defs) == 1:
        return defs[0]
    for d in defs:
        ok = True
        for e in defs:
            if e is d:
                continue
            if not (d[1] in cfg.reach_from(b, [e[1]]) and e[1] not in cfg.reach_from(b, [d[1]])):
                ok = False
        if ok:
            return d
    return None


def resolve_flag(b, local, reach, env, call_name, depth=0):
    """value of a flag local at its test, given the blocks feasible under env: the latest feasible definition wins.
    call_name(term) -> env key for call results. Returns bool or None (undetermined)."""
    if depth > 6:
        return None
    defs = [d for d in b.defs.get(local, []) if d[1] in reach]
    if not defs:
        return None
    d = _latest_def(b, defs)
    if d is None:
        return None
    kind, bb, j, node = d
    if kind == 'call':
        k = call_name(node)
        return env.get(k) if k else None
    rv = node['rv']
    if rv['k'] == 'use':
        op = rv['op']
        if 'c' in op:
            v = op['c'].get('v')
            return v in (True, 'true', 1)
        from .facts import op_place, pl_local, pl_proj
        p = op_place(op)
        if p is not None and not pl_proj(p):
            return resolve_flag(b, pl_local(p), reach, env, call_name, depth + 1)
    return None


def table_walk(b, classify, env, call_name=lambda t: None, rounds=4):
    """walk under env; switches on multi-def flag locals are resolved from their latest feasible definition"""
    flags = {}

    def classify2(d, term):
        if d['k'] == 'multi' and d.get('l') in flags:
            return ('bool', ('flag', d['l']))
        return classify(d, term)
    r = None
    for _ in range(rounds):
        env2 = dict(env)
        for l, v in flags.items():
            env2[('flag', l)] = v
        r = walker(b, classify2, env2)
        new = {}
        for (s, dst, lab, t) in cfg.switch_edges(b):
            if s not in r:
                continue
            d = cfg.describe_operand(b, t['discr'])
            neg = False
            while d['k'] == 'un' and d['op'] == 'Not':
                d = cfg.describe_operand(b, d['a'])
            if d['k'] == 'multi':
                v = resolve_flag(b, d['l'], r, env, call_name)
                if v is not None:
                    new[d['l']] = v
        if new == flags:
            break
        flags = new
    return r, flags
