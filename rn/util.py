"""Helpers shared by the rule files."""
import re
from . import cfg
from .facts import pl_local, pl_proj, pl_fields, op_place, op_const, rv_operands, rv_places
from .flow import Taint

SEND_RX = re.compile(r'^actix::(Addr::<A>|Recipient::<M>)::(send|do_send|try_send)$')


def recv_fields(body, site, arg=0):
    if len(site.args) <= arg:
        return []
    return cfg.origin_fields(body, site.args[arg])


def _local_target(body, site):
    fb = body.facts
    if fb is None:
        return None
    for n in (site.resolved, site.rfull, site.full):
        if n and n in fb.bodies and n != body.name:
            return fb.bodies[n]
    return None


def _helper_has(body, pred, depth, seen=None):
    """does a local helper (or its closures / async body) contain a site satisfying pred(body, site)?"""
    fb = body.facts
    seen = seen if seen is not None else set()
    if body.name in seen:
        return False
    seen.add(body.name)
    for b in fb.tree(body.name):
        for s in b.sites:
            if pred(b, s):
                return True
            if depth > 0 and not (s.callee or '').endswith('Future::poll'):
                t = _local_target(b, s)
                if t is not None and _helper_has(t, pred, depth - 1, seen):
                    return True
    return False


def deep_sites(body, pred, depth=1):
    """sites of `body` that satisfy pred directly, plus calls of local helper functions that contain such a site
    (so that extracting a step into a helper does not hide it from the ordering / pairing rules)"""
    out = []
    for s in body.sites:
        if pred(body, s):
            out.append(s)
        elif depth > 0 and not (s.callee or '').endswith('Future::poll'):
            t = _local_target(body, s)
            if t is not None and t.name.startswith('rnacos::') and _helper_has(t, pred, depth - 1):
                out.append(s)
    return out


def sites_on_field(body, callee_pat, field, arg=0, deep=0):
    rx = re.compile(callee_pat)

    def pred(b, s):
        names = [s.callee, s.full, s.resolved, s.rfull]
        return any(n and rx.search(n) for n in names) and recv_fields(b, s, arg)[-1:] == [field]
    return deep_sites(body, pred, deep)


def awaited(body, site):
    """the future returned by the call is handed to IntoFuture::into_future (i.e. `.await`ed) or returned / passed on"""
    dst = site.dst
    if not isinstance(dst, int):
        return True
    t = Taint(body, local_src=[dst], through_calls=False)
    for s in body.calls(r'IntoFuture::into_future$'):
        if t.op_tainted(s.args[0]):
            return True
    # returned
    if t.local_tainted(0):
        return True
    return False


def agg_of(body, op):
    """the aggregate (adt, variant, rv) an operand was built from, following moves"""
    d = cfg.describe_operand(body, op)
    if d['k'] == 'agg' and d['rv'].get('ak') == 'adt':
        return d['rv']
    return None


class FwdSite:
    """a call of a same-crate helper that does nothing but hand (addr, msg) to Addr::send / do_send / try_send: looks like the send site itself
    (callee = what the helper uses, args = the operands handed on, gargs = actor and message type read from the operand types)"""
    def __init__(self, outer, inner, k, m):
        self.outer, self.inner = outer, inner
        self.body, self.bb, self.term = outer.body, outer.bb, outer.term
        self.callee = inner.callee
        self.resolved = inner.resolved
        self.full = inner.full
        self.args = [outer.args[k - 1], outer.args[m - 1]]
        self.dst = outer.dst
        self.line = outer.line
        self.expanded = outer.expanded
        self.via = outer.resolved or outer.callee

        def ty(op):
            p = op_place(op)
            return (self.body.local_ty(p) or '') if isinstance(p, int) else ''
        at = re.sub(r'^&(mut )?', '', ty(self.args[0]))
        mact = re.match(r'^actix::(?:Addr|Recipient)<(.*)>$', at)
        self.gargs = [mact.group(1) if mact else at, ty(self.args[1])]
        if inner.callee.startswith('actix::Recipient'):
            self.gargs = [ty(self.args[1])]

    def where(self):
        return self.outer.where()

    def __repr__(self):
        return '<fwd %s via %s @%s>' % (self.callee, self.via, self.where())


def _forwarder(body, s):
    """if site s calls a small local function whose only actix send hands on two of its own parameters: (inner site, addr param no, msg param no)"""
    fb = body.facts
    name = s.resolved or s.callee
    if not name or not name.startswith('rnacos::') and not name.startswith('<rnacos::'):
        return None
    f = fb.bodies.get(name)
    if f is None or f.parent or len(f.blocks) > 60:
        return None
    inner = [x for x in f.sites if x.callee and SEND_RX.match(x.callee)]
    if len(inner) != 1 or len(inner[0].args) < 2:
        return None
    da = cfg.strip_calls(f, cfg.describe_operand(f, inner[0].args[0]))
    dm = cfg.describe_operand(f, inner[0].args[1])
    if da['k'] == 'arg' and dm['k'] == 'arg' and da['l'] <= len(s.args) and dm['l'] <= len(s.args):
        return (inner[0], da['l'], dm['l'])
    return None


def sends(body, msg_pat=None, variant=None, actor_pat=None):
    """actix send/do_send/try_send sites; filters on message type (generic arg), constructed variant, actor type.
    A same-crate helper that only forwards (addr, msg) to one of them counts as the send it performs (FwdSite)."""
    out = []
    for s in body.sites:
        if not s.callee:
            continue
        if not SEND_RX.match(s.callee):
            fw = _forwarder(body, s)
            if fw is None:
                continue
            s = FwdSite(s, *fw)
        ga = s.gargs
        actor = ga[0] if s.callee.startswith('actix::Addr') else None
        msg = ga[1] if s.callee.startswith('actix::Addr') and len(ga) > 1 else (ga[0] if ga else None)
        if msg_pat and not re.search(msg_pat, msg or ''):
            continue
        if actor_pat and not re.search(actor_pat, actor or ''):
            continue
        v = None
        a = agg_of(body, s.args[1]) if len(s.args) > 1 else None
        if a is not None:
            v = a['variant']
        if variant is not None:
            if isinstance(variant, (list, tuple, set)):
                if v not in variant:
                    continue
            elif v != variant:
                continue
        out.append((s, msg, v, a))
    return out


def dominated_by_any(body, a_blocks, b):
    return cfg.dominates_blocks(body, set(a_blocks), b)


def has_atom(atoms, kind, pred):
    return any(a[0] == kind and pred(a) for a in atoms)


def variant_guards(body, bb):
    """set of (adt, variant) known at bb"""
    return set((a[1], a[2]) for a in cfg.guard_atoms(body, bb) if a[0] == 'variant')


def variant_may_be(body, bb, adt, name):
    """is `bb` reachable when the matched enum `adt` is variant `name`: a single-variant arm or a merged arm `A | B` containing it"""
    for a in cfg.guard_atoms(body, bb):
        if a[0] == 'variant' and a[1] == adt and a[2] == name:
            return True
        if a[0] == 'variantin' and a[1] == adt and name in a[2]:
            return True
    return False


def region(fb, body, depth=2):
    """the body, its closures, and the local helper functions of the same source file it calls (transitively up to `depth`):
    what an extract-method refactoring may spread a function over"""
    out = []
    seen = set()

    def add(b, d):
        if b.name in seen:
            return
        for x in fb.tree(fb.root_of(b.name)) if False else fb.tree(b.name):
            if x.name in seen:
                continue
            seen.add(x.name)
            out.append(x)
            if d > 0:
                for s in x.sites:
                    if (s.callee or '').endswith('Future::poll'):
                        continue
                    t = _local_target(x, s)
                    if t is not None and t.file == body.file and t.name.startswith('rnacos::') and not t.parent:
                        add(t, d - 1)
    add(body, depth)
    return out


def region_calls(fb, body, pat, depth=2):
    """[(body_in_region, site)] of calls matching pat anywhere in the region"""
    out = []
    for b in region(fb, body, depth):
        for s in b.calls(pat):
            out.append((b, s))
    return out


def region_assigned_fields(fb, body, owner_pat=None, depth=2):
    out = set()
    for b in region(fb, body, depth):
        out |= assigned_fields(b, owner_pat)
    return out


def const_ints(body):
    return [int(c['v']) for (_, c) in body.consts() if 'v' in c and str(c['v']).lstrip('-').isdigit()]


def const_strs(body):
    return [c['s'] for (_, c) in body.consts() if 's' in c]


def assigned_fields(body, owner_pat=None):
    out = set()
    for (o, f, bb, s) in body.field_writes():
        if owner_pat is None or re.search(owner_pat, o):
            out.add(f)
    return out


def read_fields(body, owner_pat=None):
    out = set()
    for (o, f, bb, s) in body.field_reads():
        if owner_pat is None or re.search(owner_pat, o):
            out.add(f)
    return out


def mut_calls_on_field(body, field, method_pat, deep=0):
    """calls like self.<field>.<method>(..) where receiver is (a reference to) the field; also calls of local helpers containing one"""
    rx = re.compile(method_pat)

    def pred(b, s):
        names = [s.callee, s.full, s.resolved, s.rfull]
        return any(n and rx.search(n) for n in names) and bool(s.args) and field in recv_fields(b, s)
    return deep_sites(body, pred, deep)


def discard_sites(body):
    """call sites whose Result/Option value is thrown away:
       x.ok() with unused destination; `let _ = x` (destination never read); returns [(site, how)]"""
    used = set()
    for i, j, s in body.stmts():
        rv = s.get('rv')
        if rv:
            for p in rv_places(rv):
                used.add(pl_local(p))
    for i, b in enumerate(body.blocks):
        if b.get('cleanup'):
            continue
        t = b['t']
        if t['k'] == 'call':
            for a in t['args']:
                p = op_place(a)
                if p is not None:
                    used.add(pl_local(p))
        elif t['k'] == 'switch':
            p = op_place(t['discr'])
            if p is not None:
                used.add(pl_local(p))
        elif t['k'] == 'yield':
            p = op_place(t['val'])
            if p is not None:
                used.add(pl_local(p))
    out = []
    for s in body.sites:
        d = s.dst
        if isinstance(d, int) and d != 0 and d not in used:
            ty = body.local_ty(d)
            if s.callee and s.callee.endswith('::ok') and 'Result' in (s.callee or ''):
                out.append((s, '.ok()'))
            elif ty.startswith('std::result::Result<') or ty.startswith('std::option::Option<'):
                out.append((s, 'unused ' + ty.split('<')[0].split('::')[-1]))
    return out


def ok_return_blocks(body):
    """blocks where a Result::Ok / Option::Some value that reaches the return place is built"""
    out = []
    for (i, j, s) in body.aggregates(r'^std::result::Result$', 'Ok'):
        d = s['d']
        if not isinstance(d, int):
            continue
        if d == 0:
            out.append(i)
            continue
        t = Taint(body, local_src=[d], through_calls=False)
        if t.local_tainted(0):
            out.append(i)
    return out


def field_accesses_of_local(body, local):
    """(reads, writes) of named fields of a local (struct by value): lists of (field, bb, kind)
    writes = direct assignments to local.F and `&mut local.F` borrows; reads = uses of local.F in rvalues / shared borrows / call args"""
    reads, writes = [], []

    def fld(p):
        if isinstance(p, int) or pl_local(p) != local:
            return None
        fs = [e for e in pl_proj(p) if isinstance(e, dict) and 'f' in e]
        if not fs or pl_proj(p)[0] != fs[0]:
            return None
        return fs[0]['f']
    for i, j, s in body.stmts():
        if 'd' in s:
            f = fld(s['d'])
            if f is not None:
                writes.append((f, i, 'assign'))
        rv = s.get('rv')
        if not rv:
            continue
        if rv['k'] in ('ref', 'rawptr'):
            f = fld(rv['pl'])
            if f is not None:
                (writes if rv.get('mut') else reads).append((f, i, 'borrow'))
        else:
            for p in rv_places(rv):
                f = fld(p)
                if f is not None:
                    reads.append((f, i, 'use'))
    for i, b in enumerate(body.blocks):
        if b.get('cleanup'):
            continue
        t = b['t']
        ops = t['args'] if t['k'] == 'call' else ([t['discr']] if t['k'] == 'switch' else [])
        for op in ops:
            p = op_place(op)
            if p is not None:
                f = fld(p)
                if f is not None:
                    reads.append((f, i, 'use'))
    return reads, writes


def stale_self_reads(body, self_local=None):
    """[(G, F, read_bb, write_bb)]: an assignment self.G = e (G != F) whose value depends on a read of self.F made at read_bb, while self.F
    itself is assigned later (write_bb reachable from read_bb): the new G is computed from a value of F that is about to be replaced"""
    from .cfg import reach_from
    out = []
    # reads of self.F into locals
    reads = []  # (F, bb, dst_local)
    writes = []  # (F, bb, stmt)
    for i, j, s in body.stmts():
        d = s.get('d')
        rv = s.get('rv')
        if d is not None and not isinstance(d, int):
            fo = pl_field_owners(d)
            if fo and _rooted_self(body, d, self_local):
                writes.append((fo[0][1], i, s))
        if rv is not None and isinstance(d, int):
            for p in rv_places(rv):
                if not isinstance(p, int) and _rooted_self(body, p, self_local):
                    fo = pl_field_owners(p)
                    if fo:
                        reads.append((fo[0][1], i, d))
    for (F, rb, t) in reads:
        later = [wb for (F2, wb, ws) in writes if F2 == F and wb != rb and wb in reach_from(body, [rb])]
        if not later:
            continue
        tt = Taint(body, local_src=[t], through_calls=False)   # direct arithmetic / copies only
        for (G, wb2, ws) in writes:
            if G == F:
                continue
            if any(tt.op_tainted(o) for o in rv_operands(ws['rv'])):
                # the dependent assignment must happen (it does if reachable from the read)
                if wb2 in reach_from(body, [rb]):
                    out.append((G, F, rb, later[0]))
    return out


def _rooted_self(body, p, self_local):
    l = pl_local(p)
    if self_local is not None:
        return l == self_local
    n = body.local_name(l)
    return n == 'self'


from .facts import pl_field_owners


def loop_early_exits(b, action_bb):
    """switch edges inside the loop that contains action_bb which leave the loop without going through the iterator's own None test
    (break / return inside the body). Returns [(src, dst)]; [] when the loop scans every element. None if no enclosing loop is found."""
    from . import cfg
    nxt_all = [x.bb for x in b.calls(r'Iterator>::next$')]
    loop_next = [n for n in nxt_all if action_bb in cfg.reach_from(b, [n]) and n in cfg.reach_from(b, [action_bb])]
    if not loop_next:
        return None
    body = set(x for x in cfg.reach_from(b, loop_next) if any(n in cfg.reach_from(b, [x]) for n in loop_next))
    out = []
    for (src, dst, lab, term) in cfg.switch_edges(b):
        if src not in body:
            continue
        dd = cfg.describe_operand(b, term['discr'])
        if dd['k'] == 'discr':
            pdd = cfg.describe_operand(b, {'cp': dd['pl']})
            if pdd['k'] == 'call' and pdd['bb'] in loop_next:
                continue    # the iterator's own Some/None test
        if dst in body:
            continue
        # leaves the loop: tolerate edges that only lead to unreachable / panics (no return reachable)
        if not (set(b.return_blocks()) & cfg.reach_from(b, [dst])):
            continue
        out.append((src, dst))
    return out


def body_with_call(fb, start_body, pat, depth=2):
    """the body of start_body's region (itself, its closures, same-crate helpers it calls) that contains a call matching pat; start_body if none.
    Keeps per-function rules valid across extract-method refactorings."""
    if start_body is None:
        return None
    if start_body.calls(pat):
        return start_body
    for x in region(fb, start_body, depth):
        if x is not start_body and x.calls(pat):
            return x
    return start_body



def closures_passed(fb, b, term):
    """bodies of the closures passed as arguments of this call"""
    out = []
    for a in term.get('args', []):
        d = cfg.describe_operand(b, a)
        if d.get('k') == 'agg' and d['rv'].get('ak') == 'closure' and fb.has(d['rv']['def']):
            out.append(fb.get(d['rv']['def']))
    return out


def flag_polarity(fb, b, op, field, depth=0):
    """+1 if the bool operand equals <some place>.field, -1 if it is its negation, 0 if it depends on the field in a way not decided here,
    None if it does not depend on it. Follows Not, pass-through calls, Option::map / is_some_and / map_or with a closure returning the flag,
    unwrap_or / unwrap_or_default."""
    return _pol_desc(fb, b, cfg.describe_operand(b, op), field, depth)


def _pol_desc(fb, b, d, field, depth):
    if depth > 8:
        return 0
    d = cfg.strip_calls(b, d)
    if d['k'] == 'place':
        return 1 if d['fields'][-1:] == [field] else None
    if d['k'] == 'un' and d['op'] == 'Not':
        p = flag_polarity(fb, b, d['a'], field, depth + 1)
        return -p if p else p
    if d['k'] == 'multi':
        ps = set()
        for df in d['defs']:
            if df[0] == 'stmt' and df[3].get('rv') is not None:
                rv = df[3]['rv']
                if rv.get('k') == 'un' and rv.get('op') == 'Not':
                    p = flag_polarity(fb, b, rv['a'], field, depth + 1)
                    ps.add(-p if p else p)
                else:
                    for o in rv_operands(rv):
                        ps.add(flag_polarity(fb, b, o, field, depth + 1))
            elif df[0] == 'call':
                ps.add(_pol_desc(fb, b, {'k': 'call', 'bb': df[1], 'term': df[3]}, field, depth + 1))
        ps.discard(None)
        return None if not ps else 0
    if d['k'] == 'call':
        f = (d['term'].get('f') or {}).get('d', '')
        args = d['term'].get('args', [])
        if re.search(r'Option::<T>::(unwrap_or|unwrap_or_default|unwrap|expect)$', f) and args:
            return flag_polarity(fb, b, args[0], field, depth + 1)
        cls = closures_passed(fb, b, d['term'])
        if cls and re.search(r'Option::<T>::(map|is_some_and|map_or|is_none_or|and_then)$', f):
            for cb in cls:
                ret = _pol_desc(fb, cb, cfg.trace_local(cb, 0, 0), field, depth + 1)
                if ret is not None:
                    return ret
        for a in args:
            if flag_polarity(fb, b, a, field, depth + 1) is not None:
                return 0
        for cb in cls:
            if field in read_fields(cb):
                return 0
    return None


def flag_guards(fb, b, bb, field, loop_next=True):
    """switches on <x>.field that decide whether bb is reached: list of (polarity_needed, switch_bb) where polarity_needed is True if bb is
    only reachable (without going round a loop) when field is true, False when only if field is false, None if the polarity is not decided."""
    out = []
    nxt = [x.bb for x in b.calls(r'Iterator>::next$')] if loop_next else []
    by_src = {}
    for (src, dst, lab, term) in cfg.switch_edges(b):
        by_src.setdefault(src, []).append((dst, lab, term))
    for src, edges in by_src.items():
        term = edges[0][2]
        pol = flag_polarity(fb, b, term['discr'], field)
        if pol is None:
            continue
        reach = {}
        for (dst, lab, _) in edges:
            reach[lab] = bb in cfg.reach_from(b, [dst], blocked_blocks=nxt) or dst == bb
        if all(reach.values()) or not any(reach.values()):
            continue
        if pol == 0:
            out.append((None, src))
            continue
        vals = set()
        for (dst, lab, _) in edges:
            if reach[lab]:
                ep = cfg.edge_polarity(term, lab)
                vals.add(ep if pol > 0 else (None if ep is None else not ep))
        out.append((vals.pop() if len(vals) == 1 else None, src))
    return out


def option_edges(body, sites, which):
    """switch edges (src, dst, label) taken exactly when the Option returned by one of the call `sites` (a map lookup) is `which`
    ('Some' / 'None'). The result is followed through copies, as_ref / cloned / deref style calls."""
    bbs = {s.bb for s in sites}
    out = []
    for (s, d, lab, t) in cfg.switch_edges(body):
        desc = cfg.describe_operand(body, t['discr'])
        if desc['k'] != 'discr' or not (desc.get('adt') or '').endswith('option::Option'):
            continue
        pd = cfg.strip_calls(body, cfg.describe_operand(body, {'cp': desc['pl']}))
        if pd['k'] != 'call' or pd.get('bb') not in bbs:
            continue
        names = dict((v, n) for v, n in (desc.get('variants') or []))
        tested = [x[0] for x in t['targets']]
        if lab[1] == 'otherwise':
            vs = [n for v, n in (desc.get('variants') or []) if v not in tested]
        else:
            vs = [names.get(lab[1], lab[1])]
        if vs == [which]:
            out.append((s, d, lab))
    return out


def value_chain(fb, b, op, depth=0, out=None):
    """callees through which a value is produced, following the first argument of each call (iterator / builder chains), single-definition
    copies, and the return value of same-crate helpers: [(body, term)], innermost last"""
    if out is None:
        out = []
    if depth > 24:
        return out
    d = cfg.describe_operand(b, op)
    if d['k'] == 'call':
        t = d['term']
        out.append((b, t))
        name = cfg.callee_name(t) or ''
        hb = fb.bodies.get(name)
        if hb is not None and not hb.parent:
            # the helper's result: follow what it returns
            for (kind, bb, j, node) in hb.defs.get(0, []):
                if kind == 'call':
                    out.append((hb, node))
                    if node['args']:
                        value_chain(fb, hb, node['args'][0], depth + 1, out)
                elif kind == 'stmt' and node['rv']['k'] in ('use', 'cast'):
                    value_chain(fb, hb, node['rv']['op'], depth + 1, out)
        if t['args']:
            value_chain(fb, b, t['args'][0], depth + 1, out)
    elif d['k'] == 'multi':
        for (kind, bb, j, node) in d.get('defs', []):
            if kind == 'call':
                out.append((b, node))
                if node['args']:
                    value_chain(fb, b, node['args'][0], depth + 1, out)
    return out


def send_sites_deep(fb, b, msg_pat=None, variant=None, depth=2):
    """blocks of `b` at which a matching actix send happens: the send itself, or a call of a same-crate helper (not a closure) whose region
    contains one. -> list of (site-like with .bb/.where(), how)"""
    out = [(s, 'direct') for (s, _m, _v, _a) in sends(b, msg_pat, variant)]
    for s in b.sites:
        t = _local_target(b, s)
        if t is None or t.parent or t is b:
            continue
        if any(sends(x, msg_pat, variant) for x in region(fb, t, depth)):
            out.append((s, 'via ' + t.name.split('::')[-1]))
    return out


def loop_can_skip(b, site_bb):
    """the block lies in a `for` / `while let Some(..) = it.next()` loop and an iteration of the INNERMOST such loop can come back to the loop
    head without passing it (a `continue` / an `if` around it - also one whose condition is a disjunction and therefore has no single guarding
    edge). -> (in_loop, can_skip)"""
    heads = [x for x in b.calls(r'Iterator>::next$|Iterator::next$')]
    cands = [h for h in heads if site_bb in cfg.reach_from(b, [h.bb]) and h.bb in cfg.reach_from(b, [site_bb])]
    best = None
    for h in cands:
        # innermost: the site gets back to this head without going through any other candidate head
        if all(h.bb in cfg.reach_from(b, [site_bb], blocked_blocks={g.bb}) for g in cands if g is not h):
            best = (h, 0)
            break
    if best is None:
        return (False, False)
    h = best[0]
    for (s0, d0, lab0) in option_edges(b, [h], 'Some'):
        if d0 != site_bb and h.bb in cfg.reach_from(b, [d0], blocked_blocks={site_bb}):
            return (True, True)
    return (True, False)
