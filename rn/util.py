"""Helpers shared by the rule files."""
import re
from . import cfg
from .facts import pl_local, pl_proj, pl_fields, op_place, op_const, rv_operands, rv_places
from .flow import Taint

SEND_RX = re.compile(r'^actix::(Addr::<A>|Recipient::<M>)::(send|do_send|try_send)$')


def recv_fields(body, site, arg=0):
    if len(site.args) <= arg:
        return []
    return cfg.origin_fields(body, site.args[arg])


def _local_target(body, site):
    fb = body.facts
    if fb is None:
        return None
    for n in (site.resolved, site.rfull, site.full):
        if n and n in fb.bodies and n != body.name:
            return fb.bodies[n]
    return None


def _helper_has(body, pred, depth, seen=None):
    """does a local helper (or its closures / async body) contain a site satisfying pred(body, site)?"""
    fb = body.facts
    seen = seen if seen is not None else set()
    if body.name in seen:
        return False
    seen.add(body.name)
    for b in fb.tree(body.name):
        for s in b.sites:
            if pred(b, s):
                return True
            if depth > 0:
                t = _local_target(b, s)
                if t is not None and _helper_has(t, pred, depth - 1, seen):
                    return True
    return False


def deep_sites(body, pred, depth=1):
    """sites of `body` that satisfy pred directly, plus calls of local helper functions that contain such a site
    (so that extracting a step into a helper does not hide it from the ordering / pairing rules)"""
    out = []
    for s in body.sites:
        if pred(body, s):
            out.append(s)
        elif depth > 0:
            t = _local_target(body, s)
            if t is not None and t.name.startswith('rnacos::') and _helper_has(t, pred, depth - 1):
                out.append(s)
    return out


def sites_on_field(body, callee_pat, field, arg=0, deep=0):
    rx = re.compile(callee_pat)

    def pred(b, s):
        names = [s.callee, s.full, s.resolved, s.rfull]
        return any(n and rx.search(n) for n in names) and recv_fields(b, s, arg)[-1:] == [field]
    return deep_sites(body, pred, deep)


def awaited(body, site):
    """the future returned by the call is handed to IntoFuture::into_future (i.e. `.await`ed) or returned / passed on"""
    dst = site.dst
    if not isinstance(dst, int):
        return True
    t = Taint(body, local_src=[dst], through_calls=False)
    for s in body.calls(r'IntoFuture::into_future$'):
        if t.op_tainted(s.args[0]):
            return True
    # returned
    if t.local_tainted(0):
        return True
    return False


def agg_of(body, op):
    """the aggregate (adt, variant, rv) an operand was built from, following moves"""
    d = cfg.describe_operand(body, op)
    if d['k'] == 'agg' and d['rv'].get('ak') == 'adt':
        return d['rv']
    return None


def sends(body, msg_pat=None, variant=None, actor_pat=None):
    """actix send/do_send sites; filters on message type (generic arg), constructed variant, actor type"""
    out = []
    for s in body.sites:
        if not s.callee or not SEND_RX.match(s.callee):
            continue
        ga = s.gargs
        actor = ga[0] if s.callee.startswith('actix::Addr') else None
        msg = ga[1] if s.callee.startswith('actix::Addr') and len(ga) > 1 else (ga[0] if ga else None)
        if msg_pat and not re.search(msg_pat, msg or ''):
            continue
        if actor_pat and not re.search(actor_pat, actor or ''):
            continue
        v = None
        a = agg_of(body, s.args[1]) if len(s.args) > 1 else None
        if a is not None:
            v = a['variant']
        if variant is not None:
            if isinstance(variant, (list, tuple, set)):
                if v not in variant:
                    continue
            elif v != variant:
                continue
        out.append((s, msg, v, a))
    return out


def dominated_by_any(body, a_blocks, b):
    return cfg.dominates_blocks(body, set(a_blocks), b)


def has_atom(atoms, kind, pred):
    return any(a[0] == kind and pred(a) for a in atoms)


def variant_guards(body, bb):
    """set of (adt, variant) known at bb"""
    return set((a[1], a[2]) for a in cfg.guard_atoms(body, bb) if a[0] == 'variant')


def const_ints(body):
    return [int(c['v']) for (_, c) in body.consts() if 'v' in c and str(c['v']).lstrip('-').isdigit()]


def const_strs(body):
    return [c['s'] for (_, c) in body.consts() if 's' in c]


def assigned_fields(body, owner_pat=None):
    out = set()
    for (o, f, bb, s) in body.field_writes():
        if owner_pat is None or re.search(owner_pat, o):
            out.add(f)
    return out


def read_fields(body, owner_pat=None):
    out = set()
    for (o, f, bb, s) in body.field_reads():
        if owner_pat is None or re.search(owner_pat, o):
            out.add(f)
    return out


def mut_calls_on_field(body, field, method_pat, deep=0):
    """calls like self.<field>.<method>(..) where receiver is (a reference to) the field; also calls of local helpers containing one"""
    rx = re.compile(method_pat)

    def pred(b, s):
        names = [s.callee, s.full, s.resolved, s.rfull]
        return any(n and rx.search(n) for n in names) and bool(s.args) and field in recv_fields(b, s)
    return deep_sites(body, pred, deep)


def discard_sites(body):
    """call sites whose Result/Option value is thrown away:
       x.ok() with unused destination; `let _ = x` (destination never read); returns [(site, how)]"""
    used = set()
    for i, j, s in body.stmts():
        rv = s.get('rv')
        if rv:
            for p in rv_places(rv):
                used.add(pl_local(p))
    for i, b in enumerate(body.blocks):
        if b.get('cleanup'):
            continue
        t = b['t']
        if t['k'] == 'call':
            for a in t['args']:
                p = op_place(a)
                if p is not None:
                    used.add(pl_local(p))
        elif t['k'] == 'switch':
            p = op_place(t['discr'])
            if p is not None:
                used.add(pl_local(p))
        elif t['k'] == 'yield':
            p = op_place(t['val'])
            if p is not None:
                used.add(pl_local(p))
    out = []
    for s in body.sites:
        d = s.dst
        if isinstance(d, int) and d != 0 and d not in used:
            ty = body.local_ty(d)
            if s.callee and s.callee.endswith('::ok') and 'Result' in (s.callee or ''):
                out.append((s, '.ok()'))
            elif ty.startswith('std::result::Result<') or ty.startswith('std::option::Option<'):
                out.append((s, 'unused ' + ty.split('<')[0].split('::')[-1]))
    return out


def ok_return_blocks(body):
    """blocks where a Result::Ok / Option::Some value that reaches the return place is built"""
    out = []
    for (i, j, s) in body.aggregates(r'^std::result::Result$', 'Ok'):
        d = s['d']
        if not isinstance(d, int):
            continue
        if d == 0:
            out.append(i)
            continue
        t = Taint(body, local_src=[d], through_calls=False)
        if t.local_tainted(0):
            out.append(i)
    return out


def field_accesses_of_local(body, local):
    """(reads, writes) of named fields of a local (struct by value): lists of (field, bb, kind)
    writes = direct assignments to local.F and `&mut local.F` borrows; reads = uses of local.F in rvalues / shared borrows / call args"""
    reads, writes = [], []

    def fld(p):
        if isinstance(p, int) or pl_local(p) != local:
            return None
        fs = [e for e in pl_proj(p) if isinstance(e, dict) and 'f' in e]
        if not fs or pl_proj(p)[0] != fs[0]:
            return None
        return fs[0]['f']
    for i, j, s in body.stmts():
        if 'd' in s:
            f = fld(s['d'])
            if f is not None:
                writes.append((f, i, 'assign'))
        rv = s.get('rv')
        if not rv:
            continue
        if rv['k'] in ('ref', 'rawptr'):
            f = fld(rv['pl'])
            if f is not None:
                (writes if rv.get('mut') else reads).append((f, i, 'borrow'))
        else:
            for p in rv_places(rv):
                f = fld(p)
                if f is not None:
                    reads.append((f, i, 'use'))
    for i, b in enumerate(body.blocks):
        if b.get('cleanup'):
            continue
        t = b['t']
        ops = t['args'] if t['k'] == 'call' else ([t['discr']] if t['k'] == 'switch' else [])
        for op in ops:
            p = op_place(op)
            if p is not None:
                f = fld(p)
                if f is not None:
                    reads.append((f, i, 'use'))
    return reads, writes
