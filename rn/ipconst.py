"""Interprocedural reachability under propagation of constant bool arguments (P13).

`reach_target(fb, body, known, pred)` answers: can a call site satisfying `pred` be reached from the entry of `body`, following calls into
same-crate functions and into the closures / async blocks created on the way, when every switch whose discriminant is a parameter (or a
captured variable) with a known constant value takes only the edge that value selects? Values are known only where the caller passes a
literal `true` / `false` or hands on a parameter / captured variable that is itself known; everything else is free (both edges).
It is a may-analysis: `None` means no path exists under the constants (the flag argument really switches the effect off)."""
from . import cfg
from .facts import op_place, op_const, pl_local, pl_proj
from .walk import bool_labels


def _key_of_desc(body, d):
    """('arg', n) / ('up', i) if the descriptor is a parameter or a captured variable of this body"""
    neg = False
    while d['k'] == 'un' and d.get('op') == 'Not':
        neg = not neg
        d = cfg.describe_operand(body, d['a'])
    d = cfg.strip_calls(body, d)
    if d['k'] == 'arg':
        return ('arg', d['l']), neg
    if d['k'] == 'place' and d.get('root', {}).get('k') == 'arg' and d['root']['l'] == 1 and body.parent and d['fields'] and str(d['fields'][0]).isdigit() \
            and len(d['fields']) == 1:
        return ('up', int(d['fields'][0])), neg
    return None, neg


def _value_of_op(body, op, known):
    c = op_const(op)
    if c is not None:
        v = c.get('v')
        if v in (True, False, 'true', 'false'):
            return v in (True, 'true')
        if c.get('ty') == 'bool' and v in (0, 1):
            return bool(v)
        return None
    d = cfg.describe_operand(body, op)
    if d['k'] == 'const':
        v = d['c'].get('v')
        if v in (True, False, 'true', 'false'):
            return v in (True, 'true')
        return None
    k, neg = _key_of_desc(body, d)
    if k is not None and k in known:
        return (not known[k]) if neg else known[k]
    return None


def live_under(body, known):
    seen = set()
    stack = [0]
    while stack:
        x = stack.pop()
        if x in seen:
            continue
        seen.add(x)
        t = body.blocks[x]['t']
        allowed = None
        if t['k'] == 'switch' and known:
            k, neg = _key_of_desc(body, cfg.describe_operand(body, t['discr']))
            if k is not None and k in known:
                v = known[k]
                allowed = bool_labels(t, (not v) if neg else v)
        for (nx, lab) in body.succ[x]:
            if allowed is not None and lab not in allowed:
                continue
            stack.append(nx)
    return seen


def reach_target(fb, body, known, pred, depth=0, seen=None, trail=()):
    """-> list of (body name, site) from `body` down to the target site, or None"""
    if seen is None:
        seen = set()
    key = (body.name, tuple(sorted(known.items())))
    if key in seen or depth > 8:
        return None
    seen.add(key)
    live = live_under(body, known)
    for s in body.sites:
        if s.bb not in live or not s.callee:
            continue
        if pred(body, s):
            return list(trail) + [(body.name, s)]
    # closures / async blocks created on live paths
    for (i, j, st, cdef) in body.closures_created():
        if i not in live:
            continue
        child = fb.bodies.get(cdef)
        if child is None:
            continue
        k2 = {}
        for idx, op in enumerate(st['rv'].get('ops', [])):
            v = _value_of_op(body, op, known)
            if v is not None:
                k2[('up', idx)] = v
        r = reach_target(fb, child, k2, pred, depth + 1, seen, tuple(trail) + ((body.name, None),))
        if r:
            return r
    for s in body.sites:
        if s.bb not in live or not s.callee:
            continue
        name = s.resolved or s.callee
        callee = fb.bodies.get(name)
        if callee is None or callee.parent:
            continue
        k2 = {}
        for idx, op in enumerate(s.args):
            v = _value_of_op(body, op, known)
            if v is not None:
                k2[('arg', idx + 1)] = v
        r = reach_target(fb, callee, k2, pred, depth + 1, seen, tuple(trail) + ((body.name, s),))
        if r:
            return r
    return None


def contexts(fb, body, known, target, depth=0, seen=None):
    """the constant-argument contexts ({('arg', n): bool}) with which `target` (a def path) is called on live paths from the entry of `body`,
    following same-crate calls and closures like reach_target does"""
    if seen is None:
        seen = set()
    key = (body.name, tuple(sorted(known.items())))
    if key in seen or depth > 8:
        return []
    seen.add(key)
    out = []
    live = live_under(body, known)
    for (i, j, st, cdef) in body.closures_created():
        child = fb.bodies.get(cdef)
        if i not in live or child is None:
            continue
        k2 = {}
        for idx, op in enumerate(st['rv'].get('ops', [])):
            v = _value_of_op(body, op, known)
            if v is not None:
                k2[('up', idx)] = v
        out += contexts(fb, child, k2, target, depth + 1, seen)
    for s in body.sites:
        if s.bb not in live or not s.callee:
            continue
        name = s.resolved or s.callee
        callee = fb.bodies.get(name)
        if callee is None or callee.parent:
            continue
        k2 = {}
        for idx, op in enumerate(s.args):
            v = _value_of_op(body, op, known)
            if v is not None:
                k2[('arg', idx + 1)] = v
        if name == target:
            out.append((body, s, k2))
        else:
            out += contexts(fb, callee, k2, target, depth + 1, seen)
    return out
